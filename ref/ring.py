"""Reference implementation of the published carbon_ch / fnv1a_ch consistent-hash ring, written from
the algorithm description (graphite-web / carbon-c-relay compatible), independent of carbon.hashing."""
import bisect
import hashlib


def fnv1a32(data):
  h = 0x811c9dc5
  for b in data:
    h ^= b
    h = (h * 0x01000193) & 0xffffffff
  return h


def position(key, hash_type):
  if hash_type == 'fnv1a_ch':
    h = fnv1a32(key.encode('utf-8'))
    return (h >> 16) ^ (h & 0xffff)
  return int(hashlib.md5(key.encode('utf-8')).hexdigest()[:4], 16)


def build(nodes, hash_type='carbon_ch', replicas=100):
  """nodes: ordered list of (server, instance).  Returns the sorted ring [(position, node)]."""
  ring = []
  for node in nodes:
    for i in range(replicas):
      if hash_type == 'fnv1a_ch':
        key = '%d-%s' % (i, node[1])
      else:
        key = '%s:%d' % (node, i)
      pos = position(key, hash_type)
      taken = set(p for p, _ in ring)
      while pos in taken:          # occupied position: take the next free one
        pos += 1
      bisect.insort(ring, (pos, node))
  return ring


def preference(ring, pos):
  """Ordered list of distinct nodes met walking the ring clockwise from the first entry at or after pos."""
  if not ring:
    return []
  start = bisect.bisect_left(ring, (pos, ())) % len(ring)
  seen, out = set(), []
  for k in range(len(ring)):
    node = ring[(start + k) % len(ring)][1]
    if node not in seen:
      seen.add(node)
      out.append(node)
  return out
