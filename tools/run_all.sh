#!/bin/bash
# usage: tools/run_all.sh <quick|thorough> [IDs...]: run the registered checks one after the other on /repo, log times
TIER=$1; shift
IDS=${@:-C01 C02 C03 C04 C05 C06 C07 C08 C09 C10 C11 C12 C13 C14 C15 C16 C17 C18 C19 C20}
mkdir -p /tmp/allrun-$TIER
for ID in $IDS; do
  S=$(date +%s)
  (cd /verif && ./verify $ID --tier $TIER ${JOBS:+--jobs $JOBS} > /tmp/allrun-$TIER/$ID.log 2>&1; echo "rc=$?" >> /tmp/allrun-$TIER/$ID.log)
  E=$(date +%s)
  echo "$ID $(tail -1 /tmp/allrun-$TIER/$ID.log) wall=$((E-S))s $(grep -c '^INCONCLUSIVE' /tmp/allrun-$TIER/$ID.log) inconclusive, $(grep -c '^HARNESS-ERROR' /tmp/allrun-$TIER/$ID.log) harness errors, $(grep -c '^VIOLATION' /tmp/allrun-$TIER/$ID.log) violations" >> /tmp/allrun-$TIER/SUMMARY.txt
done
