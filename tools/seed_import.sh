#!/bin/bash
# usage: tools/seed_import.sh <PROP> <src-dir with patch.diff demo.py notes.md> <seed-id>
# Confirms, in a scratch worktree of /repo HEAD: patch applies, test suite unchanged (179 passed),
# demo fails with the change and passes without it; then stores it under /verif/seeded/<seed-id>/.
set -u
PROP=$1; SRC=$2; SID=$3
WT=/tmp/seedchk-$SID
git -C /repo worktree remove --force $WT >/dev/null 2>&1
git -C /repo worktree add -q $WT HEAD || exit 2
cd $WT
run_demo() { PYTHONPATH=$WT/lib timeout 600 /venv/bin/python $SRC/demo.py >/tmp/seedchk-$SID.out 2>&1; echo $?; }
CLEAN=$(run_demo)
git apply --check $SRC/patch.diff || { echo "PATCH DOES NOT APPLY"; git -C /repo worktree remove --force $WT; exit 2; }
git apply $SRC/patch.diff
TESTS=$(PYTHONPATH=$WT/lib /venv/bin/python -m pytest -q -p no:cacheprovider --timeout=900 --continue-on-collection-errors 2>&1 | tail -1)
MUT=$(run_demo)
TAIL=$(tail -3 /tmp/seedchk-$SID.out | tr '\n' ' ' | cut -c1-300)
git checkout -q -- .
cd /; git -C /repo worktree remove --force $WT; rm -f /tmp/seedchk-$SID.out
echo "$SID: demo clean=$CLEAN mutated=$MUT tests: $TESTS"
case "$TESTS" in *"179 passed"*) ;; *) echo "REJECT: test suite changed"; exit 1;; esac
case "$TESTS" in *"2 failed"*) ;; *) echo "REJECT: failures changed"; exit 1;; esac
if [ "$CLEAN" != "0" ] || [ "$MUT" = "0" ]; then echo "REJECT: demo does not discriminate"; exit 1; fi
D=/verif/seeded/$SID
mkdir -p $D
cp $SRC/patch.diff $D/patch.diff; cp $SRC/demo.py $D/demo.py; cp $SRC/notes.md $D/notes.md 2>/dev/null
python3 - "$PROP" "$SID" "$TESTS" "$TAIL" <<'PY'
import json,sys
prop,sid,tests,tail=sys.argv[1:5]
json.dump({"property":prop,"seed_id":sid,"needs":"see notes.md (written by the sub-agent that produced the change)",
 "confirmed":{"scratch_worktree":"git worktree of /repo HEAD under /tmp, removed afterwards",
   "test_suite_with_change":tests,"demo_exit_clean_tree":0,"demo_exit_with_change":"non-zero","demo_tail":tail},
 "detected_by":None}, open('/verif/seeded/%s/meta.json'%sid,'w'), indent=1)
PY
echo "ACCEPTED $SID"
