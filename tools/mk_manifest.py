#!/usr/bin/env python3
"""Regenerate MANIFEST.json from the per-property table below (claimed iff harness/<ID>.py exists)."""
import json
import os

VERIF = os.path.dirname(os.path.dirname(os.path.abspath(__file__)))
TECH = 'bounded symbolic execution of the real code (CrossHair 0.0.110 + z3 5.1.0), every counterexample replayed concretely'
NOTE = ('Trusted: CrossHair\'s symbolic models of Python builtins, z3, the stubs listed in evidence.assumptions; '
        'bounds are the pre: lines copied into evidence.coverage.bounds; anything outside them is not claimed.')

P = {
 'C05': dict(level='other', ref='DESIGN.md section 3 C05',
   text='Solver-decided for every ring position 0..65535 (symbolic int) of real rings built by the real add_node for a fixed family of 1..8 destinations, both hash types, RF 1..4 and both DIVERSE_REPLICAS values; plus fully symbolic tiny rings (all positions and collisions) and the fast-hash ring with symbolic hashes. Bounded: destination sets are a fixed family, md5/fnv concretised.'),
 'C13': dict(level='other', ref='DESIGN.md section 3 C13',
   text='find_class confirmed over all paths for UNBOUNDED symbolic module/name strings on a message-stripped shadow of the current source (allow-list pinned in /verif); unpickler selection and absence of any fallback to the stock unpickler confirmed for every exception class / setting value. The opcode level rests on the CPython fact that every route to a global goes through find_class.'),
}
P.update({
 'C02': dict(level='other', ref='DESIGN.md section 3 C02',
   text='Inductive single-step lemmas (store, drain, cache-query) from a symbolic pre-state of a real _MetricCache (symbolic subset of 2x2 datapoints, symbolic values, unbounded symbolic ghost size) for all 7 strategy settings, plus every sequence of <=3 (quick) / <=4 (thorough) store/drain operations against a multiset model, each decided by CrossHair+z3 with exhausted path trees. Interleavings: see notes (race harness).'),
 'C10': dict(level='other', ref='DESIGN.md section 3 C10',
   text='Inductive store step from a symbolic pre-state with UNBOUNDED symbolic MAX_CACHE_SIZE (any positive int or inf), flow control on/off, symbolic ghost size, all 7 strategies: bound never crossed, refusal iff the datapoint would exceed the hard limit, exactly one overflow signal per refusal, refusal leaves contents/size/metric count unchanged, updates always accepted. The limits are derived by executing conf.py\'s own statements on exact rationals.'),
 'C17': dict(level='other', ref='DESIGN.md section 3 C17',
   text='For all 7 strategies: complete drain of a symbolic cache (3 metrics x 0..3 datapoints) hands out everything exactly once, never an empty batch, max/bucketmax always return a maximal metric; pass fairness for naive/sorted/timesorted over every sequence of <=4 (quick) / 5 (thorough) drain/store operations; MIN_TIMESTAMP_LAG with unbounded symbolic clock and lag. Path trees exhausted within those bounds.'),
})
P.update({
 'C01': dict(level='other', ref='DESIGN.md section 3 C01',
   text='Decomposed: framing (inductive step of the real LineOnlyReceiver/Int32StringReceiver from an arbitrary buffer, plus every delimiter mask x every pair of cut positions incl. inside a UTF-8 character and inside the 4-byte prefix), parsing (symbolic metric names over all non-whitespace code points; number spellings, whitespace, terminators and batching from boundary tables with symbolic indices) and pickle entry unpacking, each decided by CrossHair+z3 with exhausted path trees within the stated bounds.'),
 'C11': dict(level='other', ref='DESIGN.md section 3 C11',
   text='No exception escapes and neighbours are delivered exactly as if the malformed item were absent: symbolic raw bytes (<=4) into lineReceived, symbolic ASCII bytes into datagramReceived, tables of malformed fields / undecodable lines / wrong-shaped pickle payloads / exception classes of the unpickler with symbolic indices and positions, each between two well-formed items (differential oracle). Path trees exhausted within the bounds.'),
 'C12': dict(level='other', ref='DESIGN.md section 3 C12',
   text='metricReceived decided for every combination of symbolic blacklist/whitelist emptiness and match bits, value table incl. NaN/inf, any non-negative symbolic int timestamp (written q*res+r), -1 with a symbolic clock, fractional timestamps, resolutions {0,1,10,60,7,3600}, on all three listeners: delivered iff admissible, counters exact, name/value untouched, timestamp floored. RegexList.read_list on generated files and __contains__ on symbolic names.'),
 'C20': dict(level='proof', ref='DESIGN.md section 3 C20',
   text='SMT proof of an inductive lemma set over the z3 translation of the CURRENT TokenBucket source (validated against the real class on seeded runs each time): invariant preservation, credit potential phi decreases by cost per grant and grows at most r*dt, phi in [0,2C] after grants, blocking wait <= deficit/rate, limit change leaves tokens <= new burst; all for UNBOUNDED real capacity, rate, cost and clock readings, hence histories of any length. Plus a bounded k-call direct statement (with and without a limit change).',
   technique='AST->SMT translation of the real source; inductive lemmas discharged by z3 (QF_NRA), translation validated against the real class',
   note='Trusted: the AST->z3 translator (checked on every run against the real class on seeded concrete inputs), z3 5.1.0, floats modelled as reals (IEEE rounding outside the claim), the clock contract (non-decreasing readings; sleep(d) advances >= d), and the short telescoping argument that turns the lemmas into the window bound (stated in evidence.assumptions).'),
})
P.update({
 'C14': dict(level='other', ref='DESIGN.md section 3 C14',
   text='TaggedSeries.encode and WhisperDatabase.getFilesystemPath (real class body, stub whisper module) decided for every metric string of length <= 4 (quick) / 5 (thorough) over the full alphabet, both TAG_HASH_FILENAMES values, 4 data directories: relative path never absolute and free of "." (no "."/".." segment), deterministic; injectivity for all pairs of well-formed untagged names up to length 3 plus a table of look-alike spellings. Lexical confinement only (whisper/ceres absent).'),
 'C18': dict(level='other', ref='DESIGN.md section 3 C18',
   text='Idempotence, tag-rule conformance and stored/relayed-as-received for every string of length <= 4 (quick) / 5 (thorough) over the full alphabet through the real parser (shadow without message formatting) and the real CacheFeedingProcessor/RelayProcessor; order- and syntax-independence over tables of components incl. empty and reserved-character ones with symbolic indices (the OpenMetrics regex on long symbolic strings is out of reach). One known finding (mixed syntax).'),
})
P.update({
 'C03': dict(level='other', ref='DESIGN.md section 3 C03',
   text='One writer pass of the REAL carbon.writer over a symbolic workload (subset of 2x2 datapoints, symbolic values), symbolic pre-existing files, symbolic 3/4-bit fault mask over the exists/create/write calls, create/update buckets absent or scripted by symbolic bits, all 7 strategies: per drained batch exactly one of {one write under its own name after the exists gate, counted dropped create, counted/logged error}, counters exact, nothing lost or duplicated; writeForever survives an escaping exception. Interleavings: race harness (see notes).'),
 'C04': dict(level='other', ref='DESIGN.md section 3 C04',
   text='REAL writeForever with the stop arriving at a symbolic event index (every read of reactor.running, every sleep, every backend call), 0-2 stores by the receiving thread at symbolic earlier events, all strategies, MIN_TIMESTAMP_LAG 0 / large, shutdown rate setting present/absent: at writer exit every accepted datapoint was written exactly once and the cache is empty. Twisted\'s shutdown ordering is an assumption.'),
 'C07': dict(level='other', ref='DESIGN.md section 3 C07',
   text='Inductive step lemmas on the real CarbonClientFactory/Protocol from symbolic pre-states (queue length, connection/pause/queueFull flags) with UNBOUNDED symbolic thresholds low <= MAX <= hard and batch size: arrival, self-metric, send, connection lost/failed with dynamic router, orderly stop; plus every event sequence of length <= 3 (quick) / 4 (thorough) over 8 event kinds against a queue model (exactly once, in order, never to a dead connection, discards counted).'),
 'C09': dict(level='other', ref='DESIGN.md section 3 C09',
   text='Relay side: 0-4 arrivals with optional connection loss/re-establishment and self-metric, repeated fill/drain rounds, and two destinations behind the real CarbonClientManager with dynamic-router removal, all with symbolic thresholds, run to quiescence of the virtual reactor: paused implies a queue still at/above its low watermark. Cache side: inductive drain step with unbounded symbolic MAX_CACHE_SIZE and fill/drain cycles for all strategies. Connections made while paused. Interleavings of the two threads: race harness (see notes).'),
 'C15': dict(level='other', ref='DESIGN.md section 3 C15',
   text='Real client encoders -> bytes -> real listeners for boundary tables of 50 values x 8 timestamps x 7 names (symbolic indices; printf/strtod/pickle are C code): pickle identical, plaintext name identical, timestamp truncated, value within 5e-11 + ulp, +-inf kept. Batching: queue length 0..7 and ANY symbolic MAX_DATAPOINTS_PER_MESSAGE >= 1: concatenation of messages == queue, each message within the limit.'),
})
P.update({
 'C06': dict(level='other', ref='DESIGN.md section 3 C06',
   text='Ring tables of the real ConsistentHashRing equal an independent reference implementation of the published algorithm entry for entry, and for EVERY ring position (symbolic int) the preference order equals the reference; removing/adding one destination changes every preference order only by deleting/inserting it (all positions); after every valid add/remove history of length <= 3 (from a full 3-node ring) the ring table and bookkeeping equal a fresh relay\'s, positions compared symbolically wherever tables differ. Fixed family of destination lists incl. fully colliding ones; md5/fnv concretised. One known finding (colliding replicas, middle node leaves).'),
 'C08': dict(level='other', ref='DESIGN.md section 3 C08',
   text='Inductive flush step of the real MetricBuffer from a symbolic state (subset of 4-6 interval buffers created in non-sorted order, active/inactive since a symbolic interval, unbounded symbolic clock, MAX_AGGREGATION_INTERVALS 0..3, all 12 methods against reference functions), input step, event sequences of <=3/4 datapoints and flushes on a virtual clock, forwarding with symbolic rule results, rule patterns against a reference matcher on symbolic names, and an SMT lemma for the bucket alignment arithmetic translated from the source.'),
 'C16': dict(level='other', ref='DESIGN.md section 3 C16',
   text='RelayRulesRouter.getDestinations against a reference evaluator for 1-4 real rules with symbolic match bits, continue flags, destination subsets and configured set; loadRelayRules on every 3-section file over 6 section kinds (symbolic indices) incl. the documented error cases, end to end through the router; aggregation-aware routing with symbolic rule results hashing exactly the aggregate names.'),
 'C19': dict(level='other', ref='DESIGN.md section 3 C19',
   text='Create loop of the REAL writer with 0-3 schemas per list whose match result is a symbolic bit: create() receives the archives/xff/method of the first match, documented defaults otherwise; parseRetentionDef against a reference for 9 digit strings x 10 unit suffixes on both sides; loadStorageSchemas/loadAggregationSchemas on every 3-section file over 6 section kinds: complete sections in file order, default last, incomplete ones ignored without disturbing the others.'),
})
ADD = {
 'C01': ' Also: python2-style frames on the real C unpickler, the frame length limit boundary, and back-pressure (pause/resume) from inside a segment.',
 'C02': ' The store step is also taken with the cache exactly at its hard limit; timestamps include sub-second floats sharing a whole second. Statement-level interleavings of a store with drains are decided by the race harness and replayed on real threads.',
 'C03': ' writeForever with one or two backend failures carrying the same message text (each must be reported).',
 'C04': ' Plus statement-level preemption of the writer loop (coroutines of writeForever, the cache and the real TokenBucket) by a store or by the shutdown trigger itself, followed by the stop; counterexamples replayed on real threads.',
 'C05': ' Also routers after a removal, the aggregation-aware router over overlapping replica sets (symbolic positions per aggregate name), suspended/interleaved look-ups on one ring, and SMT range lemmas for both hash functions.',
 'C07': ' Plus outage and recovery through CarbonClientManager with a dynamic router (stand-in buffer re-injected exactly once, in order) and progress to quiescence after symbolic event pairs.',
 'C08': ' Plus histories through the real input() with a late datapoint for a kept or just-trimmed interval, and two-field patterns.',
 'C09': ' Relay rounds optionally lose and re-establish the connection in the middle of the drain; the cache-side race harness also sends the filling store to the metric being popped.',
 'C11': ' Frames up to the configured length limit (garbage or padded valid pickles) never close the connection.',
 'C12': ' List-file harnesses judge membership semantically (rules with groups/back-references); sub-second timestamps on every listener path; SMT lemma for the resolution floor.',
 'C13': ' The setting is read through conf.read_config with the instance-section overlay; nine opcode routes to a global are run on the real C unpickler.',
 'C14': ' Also every path exists() stats or renames, crafted long names, and equality of the mapping across interpreter starts (different string-hash seeds).',
 'C15': ' Datapoints enter through sendDatapoint and may be exact repeats of their predecessor (nothing may be merged).',
 'C16': ' Patterns include a plain anchored prefix with mixed-case names; aggregation-aware routing is also checked across a reload of the rules file with the real RuleManager.',
 'C17': ' Plus max/bucketmax under interleaved drain/store/re-store sequences, an influx of new metric names in the middle of a pass, and completeness of repeated draining after a store/drain race.',
 'C18': ' Thirty names violating a documented tag rule (several with a well-formed last tag) must be refused by the parser.',
 'C19': ' Plus the writer\'s reload functions after the live config file was replaced (older or newer mtime) in a private CONF_DIR, reload order independence, real pattern matching (alternations mixing anchored and unanchored branches), and independence of a section\'s match from an earlier section of the same name built in the same process.',
 'C20': ' The writer call sites (one token, acquired first, per create/write) are decided with scripted stub buckets and with real TokenBucket objects in arbitrary fill states; shutdownModifyUpdateSpeed reaches both buckets.',
}
for _k, _v in ADD.items():
  P[_k]['text'] = P[_k]['text'] + _v
NA_PENDING = 'harness not implemented yet in this round (see DESIGN.md section 3 for the planned solver-based harness)'


def main():
  props = [json.loads(l) for l in open(os.path.join(VERIF, 'properties.jsonl'))]
  checks, na = [], []
  for p in props:
    pid = p['id']
    if os.path.exists(os.path.join(VERIF, 'harness', pid + '.py')) and pid in P:
      e = P[pid]
      checks.append(dict(
        property_id=pid,
        quick_cmd='./verify %s --tier quick' % pid,
        thorough_cmd='./verify %s --tier thorough' % pid,
        evidence_file='evidence/%s.json' % pid,
        replay_cmd_template='./verify --replay {path}',
        engine='crosshair+z3',
        level_claimed=dict(category=e['level'], text=e['text'], design_ref=e['ref']),
        level_note=e.get('note', NOTE),
        technique=e.get('technique', TECH)))
    else:
      na.append(dict(property_id=pid, reason=NA.get(pid, NA_PENDING)))
  man = dict(
    version=1,
    setup_cmd='./verify --setup',
    hooks=dict(guard='GRAPHITE_PROJECT_CARBON_VERIF', enable='no hooks needed: all instrumentation is done on shadow copies regenerated from /repo source at run time',
               baseline_off_cmd='cd /repo && /venv/bin/python -m pytest -ra -q -p no:cacheprovider --timeout=900 --continue-on-collection-errors',
               source_commits=[], add_only=True),
    engines=[dict(name='crosshair+z3', path='vp_lib/xh_driver.py', serves_properties=[c['property_id'] for c in checks],
                  kind_free_text='symbolic execution of the real Python code per path with z3 (engine X); AST->z3 translation of numeric kernels (engine S)')],
    checks=checks,
    notes='Exit codes: 0 nothing violated in what was explored (INCONCLUSIVE lines name obligations whose path tree was not exhausted); 1 with VIOLATION lines for replayed violations not in known_findings.json; 3 harness error (vacuous twin, non-replaying model, shadow pass not applicable).',
    not_applicable=na)
  with open(os.path.join(VERIF, 'MANIFEST.json'), 'w') as fh:
    json.dump(man, fh, indent=1)
  print('claimed:', [c['property_id'] for c in checks], 'n/a:', len(na))


NA = {}

if __name__ == '__main__':
  main()
