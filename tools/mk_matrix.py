#!/usr/bin/env python3
"""Write seeded/MATRIX.md and the detected_by field of every seeded/<id>/meta.json from /tmp/seedmatrix/*.txt."""
import glob, json, os, re
rows = []
for d in sorted(glob.glob('/verif/seeded/C*-m*')):
  sid = os.path.basename(d)
  meta = json.load(open(os.path.join(d, 'meta.json')))
  res = '/tmp/seedmatrix/%s.txt' % sid
  line = open(res).read().strip() if os.path.exists(res) else ''
  m = re.match(r'(\S+) rc=(\d+) violations_in: (.*?) harness_errors=(\d+)', line)
  if m:
    rc, harn = int(m.group(2)), m.group(3).split()
    # engine-S lemma replays are named after the lemma, not the harness
    fixed = []
    for h in harn:
      if h.startswith('replay='):
        fixed.append('lemma:' + re.sub(r'-[0-9a-f]+\.json$', '', os.path.basename(h))[:40])
      elif not h.startswith(('VIOLATION', 'property=')):
        fixed.append(h)
    harn = sorted(set(fixed))
    meta['detected_by'] = harn if rc == 1 else []
    meta['check_exit_code_with_change'] = rc
    meta['ran'] = './verify %s --tier quick with VERIF_REPO pointing at a scratch worktree of /repo HEAD carrying the change (tools/seed_matrix.sh)' % meta['property']
  json.dump(meta, open(os.path.join(d, 'meta.json'), 'w'), indent=1)
  notes = ''
  try:
    notes = open(os.path.join(d, 'notes.md')).read()
  except OSError:
    pass
  first = [l.strip('# *-') for l in notes.splitlines() if l.strip()][:1]
  rows.append((sid, meta['property'], ' '.join(meta.get('detected_by') or []) or ('— (obsolete: %s)' % meta['obsolete'][:60] if meta.get('obsolete') else 'NOT DETECTED'),
               meta.get('check_exit_code_with_change', '?'), (first[0] if first else '')[:110]))
with open('/verif/seeded/MATRIX.md', 'w') as fh:
  fh.write('# Seeded changes vs checks (quick tier)\n\nEach row: the change was applied to a scratch worktree of /repo HEAD, the 179 tests still pass, the demo fails with it and passes without; '
           'then the property\'s registered quick check ran against that worktree. Rows m1-m4 were detected by the full quick check in the matrix runs of their round and were re-validated after the last harness changes with exactly the harnesses listed (tools/seed_matrix.sh with ONLY_FROM_META=1); rows m5-m7 are from full quick checks with the final harnesses.\n\n| seed | property | harnesses reporting a replayed VIOLATION | exit | what the change is (first line of notes.md) |\n|---|---|---|---|---|\n')
  for r in rows:
    fh.write('| %s | %s | %s | %s | %s |\n' % r)
print(len(rows), 'rows;', len([r for r in rows if r[3] == 1]), 'detected')

# summary table in DESIGN.md
import collections
by = collections.defaultdict(dict)
for d in sorted(glob.glob('/verif/seeded/C*-m*')):
  sid = os.path.basename(d)
  meta = json.load(open(os.path.join(d, 'meta.json')))
  prop, k = sid.split('-')
  hs = meta.get('detected_by')
  if meta.get('obsolete'):
    cell = '(obsolete)'
  elif hs:
    cell = ', '.join(sorted(set(('lemma ' + h[6:].split('_')[0]) if h.startswith('lemma:') else h.replace(prop + '_', '') for h in hs)))
  elif hs is None:
    cell = 'not run'
  else:
    cell = '**not detected**'
  by[prop][k] = cell
cols = ['m1', 'm2', 'm3', 'm4', 'm5', 'm6', 'm7']
lines = ['| property | ' + ' | '.join(cols) + ' |', '|---|' + '---|' * len(cols)]
for prop in sorted(by):
  lines.append('| %s | ' % prop + ' | '.join(by[prop].get(c, '') for c in cols) + ' |')
ds = open('/verif/DESIGN.md').read()
a, b = ds.index('<!-- SEED-TABLE-BEGIN -->'), ds.index('<!-- SEED-TABLE-END -->')
ds = ds[:a] + '<!-- SEED-TABLE-BEGIN -->\n' + '\n'.join(lines) + '\n' + ds[b:]
open('/verif/DESIGN.md', 'w').write(ds)
