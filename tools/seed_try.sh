#!/bin/bash
# usage: tools/seed_try.sh <seed-id> <PROP> [verify args...]: run a check against a scratch worktree carrying the seed (VERIF_REPO)
SID=$1; PROP=$2; shift; shift
WT=/tmp/seedtry-$SID-$$
git -C /repo worktree add -q $WT HEAD || exit 2
git -C $WT apply /verif/seeded/$SID/patch.diff || { git -C /repo worktree remove --force $WT; exit 2; }
cd /verif && VERIF_REPO=$WT VP_EVIDENCE=/tmp/seedtry-ev-$$ VP_REPLAYS=/tmp/seedtry-rp-$$ ./verify $PROP --jobs ${JOBS:-6} "$@" > /tmp/seedtry-$SID.log 2>&1; RC=$?
grep -E "VIOLATION|HARNESS-ERROR|INCONCLUSIVE|tier=" /tmp/seedtry-$SID.log | cut -c1-260 | head -8
echo "== $SID vs $PROP: rc=$RC"
git -C /repo worktree remove --force $WT; rm -rf /tmp/seedtry-ev-$$ /tmp/seedtry-rp-$$
