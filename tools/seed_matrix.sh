#!/bin/bash
# usage: tools/seed_matrix.sh <seed-id>...   Runs each seed's property check (quick tier) against a scratch worktree
# with the seed applied (VERIF_REPO), without touching /repo or /verif/evidence.  Result lines go to /tmp/seedmatrix/<seed>.txt
mkdir -p /tmp/seedmatrix
for SID in "$@"; do
  PROP=${SID%%-*}
  WT=/tmp/seedwt-$SID
  git -C /repo worktree remove --force $WT >/dev/null 2>&1
  git -C /repo worktree add -q $WT HEAD || continue
  if ! git -C $WT apply /verif/seeded/$SID/patch.diff; then echo "$SID: PATCH DOES NOT APPLY" > /tmp/seedmatrix/$SID.txt; git -C /repo worktree remove --force $WT; continue; fi
  ONLY=""
  if [ -n "${ONLY_FROM_META:-}" ]; then
    # regression mode: only the harnesses that reported the change last time (meta.json detected_by)
    ONLY=$(python3 -c "
import json,sys
m=json.load(open('/verif/seeded/$SID/meta.json'))
hs=[h for h in (m.get('detected_by') or []) if not h.startswith('lemma:')]
if any(h.startswith('lemma:') for h in (m.get('detected_by') or [])): hs.append('${PROP}_lemmas')
print(' '.join('--only '+h for h in sorted(set(hs))))")
  fi
  ( cd /verif && VERIF_REPO=$WT VP_EVIDENCE=/tmp/seedmatrix/ev-$SID VP_REPLAYS=/tmp/seedmatrix/rp-$SID ./verify $PROP --tier quick --jobs ${JOBS:-8} $ONLY > /tmp/seedmatrix/$SID.log 2>&1; echo "rc=$?" >> /tmp/seedmatrix/$SID.log )
  RC=$(tail -1 /tmp/seedmatrix/$SID.log)
  HARN=$(grep -E "^VIOLATION" /tmp/seedmatrix/$SID.log | sed -E 's/.*replay=.*\/(C[0-9]+_[a-z_A-Z0-9]+)-[0-9a-f]+\.json/\1/' | sort -u | tr '\n' ' ')
  HE=$(grep -c "^HARNESS-ERROR" /tmp/seedmatrix/$SID.log)
  echo "$SID $RC violations_in: $HARN harness_errors=$HE" > /tmp/seedmatrix/$SID.txt
  git -C /repo worktree remove --force $WT
  rm -rf /tmp/seedmatrix/rp-$SID /tmp/seedmatrix/ev-$SID
done
