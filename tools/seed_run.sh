#!/bin/bash
# usage: tools/seed_run.sh <seed-id> <PROP> [tier] [extra verify args] : apply the seeded change to /repo, run the check, undo.
SID=$1; PROP=$2; TIER=${3:-quick}; shift; shift; [ $# -gt 0 ] && shift
cd /repo && git diff --quiet || { echo "/repo not clean"; exit 2; }
git apply /verif/seeded/$SID/patch.diff || exit 2
cd /verif && ./verify $PROP --tier $TIER "$@" > /tmp/seedrun-$SID.log 2>&1; RC=$?
git -C /repo checkout -- .
grep -E "VIOLATION|HARNESS-ERROR|KNOWN-FINDING|INCONCLUSIVE|tier=" /tmp/seedrun-$SID.log | cut -c1-400 | head -12
echo "== $SID vs $PROP/$TIER: rc=$RC"
rm -rf /verif/replays/$PROP
