"""C10 — the cache stays within its configured bound and every refusal is signalled."""
from vp_lib.api import H, cover
from vp_lib import cachelab as L


def _store_step(mod, strat, b0, b1, b2, b3, pv, ghost, unbounded, maxsize, flow, mi, ti, v):
  cache = L.build(mod, strat, [b0, b1, b2, b3], [pv, pv + 1, pv + 2, pv + 3], ghost)
  if unbounded:
    L.apply_limits(float('inf'), flow)
  else:
    L.apply_limits(maxsize, flow)
  hard = L.settings['CACHE_SIZE_HARD_MAX']
  soft = L.settings['MAX_CACHE_SIZE']
  metric, ts = L.METRICS[mi], L.STAMPS[ti]
  before = L.contents(cache)
  size0, len0 = cache.size, len(cache)
  existed = metric in before and ts in before[metric]
  had_points = metric in before and len(before[metric]) > 0
  newq0 = list(cache.new_metrics)
  with L.Events() as ev:
    cache.store(metric, (ts, v))
  after = L.contents(cache)
  ok = True
  if cache.size != L.held(cache) + ghost:          # size exact (C02 shares this)
    ok = False
  if not L.bookkeeping_ok(cache, strat):
    ok = False
  if existed:
    cover('update')
    # an update to a cached timestamp is always accepted, never grows the cache, never signals
    expect = dict((m, dict(d)) for m, d in before.items())
    expect[metric][ts] = v
    if after != expect or cache.size != size0 or ev.overflow != 0 or len(cache) != len0:
      ok = False
  elif (not unbounded) and size0 + 1 > hard:       # accepting it would cross the hard limit
    cover('refused')
    # refusal: exactly one overflow signal, contents / size / metric count untouched
    if ev.overflow != 1 or cache.size != size0 or len(cache) != len0:
      ok = False
    if dict((m, d) for m, d in after.items() if d) != dict((m, d) for m, d in before.items() if d):
      ok = False
    if list(cache.new_metrics) != newq0:
      ok = False
  else:
    cover('accepted')
    expect = dict((m, dict(d)) for m, d in before.items())
    expect.setdefault(metric, {})[ts] = v
    if after != expect or cache.size != size0 + 1 or ev.overflow != 0:
      ok = False
    if (ev.full == 1) != ((not unbounded) and size0 >= soft):
      ok = False
    if list(cache.new_metrics) != newq0 + ([] if had_points else [metric]):
      ok = False
  if (not unbounded) and size0 <= hard and cache.size > hard:   # the bound is never crossed
    ok = False
  return ok


def C10_store_step(strat: int, b0: bool, b1: bool, b2: bool, b3: bool, pv: int, ghost: int, unbounded: bool,
                   maxsize: int, flow: bool, mi: int, ti: int, v: int) -> bool:
  """
  pre: 0 <= strat <= 6
  pre: ghost >= 0
  pre: maxsize >= 1
  pre: 0 <= mi <= 2 and 0 <= ti <= 2
  post: __return__
  """
  return _store_step(L.SHADOW, strat, b0, b1, b2, b3, pv, ghost, unbounded, maxsize, flow, mi, ti, v)


def replay_store_step(strat, b0, b1, b2, b3, pv, ghost, unbounded, maxsize, flow, mi, ti, v):
  return _store_step(L.real_cache, strat, b0, b1, b2, b3, pv, ghost, unbounded, maxsize, flow, mi, ti, v)


def C10_limits(maxsize: int, flow: bool) -> bool:
  """
  pre: maxsize >= 1
  post: __return__
  """
  # conf.py's derived limits: LOW < MAX <= HARD for every positive MAX_CACHE_SIZE
  L.apply_limits(maxsize, flow)
  low, hard = L.settings['CACHE_SIZE_LOW_WATERMARK'], L.settings['CACHE_SIZE_HARD_MAX']
  return low < maxsize <= hard and (flow or hard == maxsize) and hard <= maxsize * 1.05


FLOAT_MAX = list(range(1, 65)) + [100, 1000, 4096, 10 ** 6, 10 ** 6 + 1, 12345677, 2 ** 31, 10 ** 12 + 7]


def C10_limits_float(mi: int, flow: bool) -> bool:
  """
  pre: 0 <= mi < len(FLOAT_MAX)
  post: __return__
  """
  # conf.py's derivation in REAL double arithmetic (the step harness computes it on exact rationals):
  # without flow control the hard limit is MAX_CACHE_SIZE itself, with it MAX <= hard <= 1.05*MAX; low < MAX
  from vp_lib.api import pick
  m = pick(FLOAT_MAX, mi)
  L.sset('MAX_CACHE_SIZE', m)
  L.sset('USE_FLOW_CONTROL', flow)
  exec(L._LIMIT_CODE, {'settings': L.settings})
  for k in list(L.settings.__dict__):
    L.settings[k] = L.settings.__dict__.pop(k)
  hard, low = L.settings['CACHE_SIZE_HARD_MAX'], L.settings['CACHE_SIZE_LOW_WATERMARK']
  cover('derived')
  if not flow:
    return hard == m and low < m
  return m <= hard <= m * 1.05 and low < m


_STRAT_SHARDS = [('s%d_%s_%s' % (i, n or 'none', 'inf' if u else 'bounded'), 'strat == %d and unbounded == %s' % (i, u))
                 for i, n in enumerate(L.STRATEGY_NAMES) for u in (False, True)]

HARNESSES = [
  H('C10_limits_float', quick=dict(timeout=200), covers=['derived'],
    encodes=['carbon.conf: CACHE_SIZE_HARD_MAX / CACHE_SIZE_LOW_WATERMARK derivation in real doubles'],
    assumptions=['%d concrete MAX_CACHE_SIZE values incl. 1..64 (symbolic index): closes the floats-as-reals gap of the step harness for the derivation itself' % len(FLOAT_MAX)]),
  H('C10_store_step', quick=dict(timeout=240, shards=_STRAT_SHARDS), thorough=dict(timeout=900, shards=_STRAT_SHARDS),
    covers=['update', 'refused', 'accepted'], replay='replay_store_step',
    encodes=['carbon.cache:_MetricCache.store', 'carbon.cache:_MetricCache.is_full', 'carbon.cache:_MetricCache.is_nearly_full',
             'carbon.cache:BucketMaxStrategy.store', 'carbon.conf: CACHE_SIZE_LOW_WATERMARK/CACHE_SIZE_HARD_MAX derivation (statements extracted from the current source)'],
    assumptions=['inductive step: pre-state = real _MetricCache built by real store() calls for a symbolic subset of '
                 '2 metrics x 2 timestamps (values pv..pv+3, pv symbolic), plus a symbolic ghost count of datapoints of other metrics added to size; '
                 'MAX_CACHE_SIZE any positive int or inf, flow control on/off, one store of metric in {a,b,c} at timestamp in {10,20,30} with a symbolic value',
                 'carbon.cache executed as a message-stripped shadow module (log formatting realises the symbolic size); replay on the real module']),
]


# ---- interleavings: the bound at every scheduling point -----------------------------------------------------------------
from vp_lib import racelab as R  # noqa: E402


def _race_setup(b0, b2, mi, ti, v, m2, t2, two, p1, n, p2):
  stores = [(L.METRICS[mi], L.STAMPS[ti], v)] + ([(L.METRICS[m2], L.STAMPS[t2], v + 1)] if two else [])
  plan = [('W', p1), ('R', n)] + ([('W', p2)] if p2 else [])
  return [b0, False, b2, False], stores, plan


def _race_verdict(out, stores):
  if out.errors and out.cache.size == L.held(out.cache):
    return None                       # an exception inside store/drain alone is C17's clause; a size left wrong by it is ours
  if out.errors:
    return 'after %r the reported size is %r but %r datapoints are held' % (out.errors[0][1], out.cache.size, L.held(out.cache))
  if out.size_bad is not None:
    return 'lock free but reported size %r != %r datapoints held' % (out.size_bad[1], out.size_bad[2])
  if out.bound_bad is not None:
    return 'size %r above the hard limit at a scheduling point' % (out.bound_bad[1],)
  left = L.held(out.cache)
  drained = sum(len(b) for (m, b) in out.drains)
  pre = sum(len(d) for d in out.pre.values())
  distinct_new = len(set((m, ts) for (m, ts, v) in stores if not (m in out.pre and ts in out.pre[m])))
  # every refused datapoint raised the overflow signal: accepted + refused == attempted (new timestamps)
  if left + drained + out.overflow < pre + distinct_new:
    return 'a datapoint disappeared without an overflow signal (%d held + %d drained + %d overflow < %d)' % (left, drained, out.overflow, pre + distinct_new)
  return None


def C10_race(strat: int, b0: bool, b2: bool, maxsize: int, flow: bool, mi: int, ti: int, v: int, m2: int, t2: int, two: bool,
             p1: int, n: int, p2: int) -> bool:
  """
  pre: 0 <= strat <= 6
  pre: 1 <= maxsize <= 3
  pre: int(b0) + int(b2) <= maxsize
  pre: 0 <= mi <= 2 and 0 <= ti <= 2 and 0 <= m2 <= 2 and 0 <= t2 <= 2
  pre: 0 <= p1 <= 30 and 0 <= n <= 24 and 0 <= p2 <= 8
  post: __return__
  """
  bits, stores, plan = _race_setup(b0, b2, mi, ti, v, m2, t2, two, p1, n, p2)
  out = R.symbolic_run(strat, bits, 1, stores, 1, plan, maxsize=maxsize, flow=flow)
  if [t for t in out.trace if t[0] == 'R'] and [t for t in out.trace if t[0] == 'W']:
    cover('interleaved')
  problem = _race_verdict(out, stores)
  if problem:
    raise AssertionError(problem)
  return True


def replay_race(strat, b0, b2, maxsize, flow, mi, ti, v, m2, t2, two, p1, n, p2):
  bits, stores, plan = _race_setup(b0, b2, mi, ti, v, m2, t2, two, p1, n, p2)
  sym = R.symbolic_run(strat, bits, 1, stores, 1, plan, maxsize=maxsize, flow=flow)
  out = R.real_run(strat, bits, 1, stores, 1, sym.trace, maxsize=maxsize, flow=flow)
  if out.replay_problems and not out.errors:
    raise RuntimeError('schedule could not be enforced on real threads: %r' % (out.replay_problems,))
  if out.size_bad is None and out.cache.size != L.held(out.cache):
    out.size_bad = ('end', out.cache.size, L.held(out.cache))
  return _race_verdict(out, stores) is None


_RQ10 = [('s%d_%s_%s' % (i, L.STRATEGY_NAMES[i] or 'none', 'two' if t else 'one'), 'strat == %d and two == %s' % (i, bool(t))) for i in (0, 3, 6) for t in (0,)]
_RS10 = [('s%d_%s_%s_m%d' % (i, n or 'none', 'two' if t else 'one', m), 'strat == %d and two == %s and mi == %d' % (i, bool(t), m))
         for i, n in enumerate(L.STRATEGY_NAMES) for t in (0, 1) for m in range(3)]
HARNESSES.append(
  H('C10_race', quick=dict(timeout=420, shards=_RQ10, extra_pre=['p2 == 0', 'maxsize <= 2', 'not flow', 'mi == 0 and ti != 1', 'm2 == 1 and t2 <= 1']),
    thorough=dict(timeout=900, shards=_RS10, extra_pre=['m2 >= 1', 'p2 in (0, 3)', 'maxsize <= 2', 't2 <= 1', 'n in (0, 2, 4, 6, 8, 10, 12, 16, 20, 24)']),
    covers=['interleaved'], replay='replay_race', twin_pre=['strat == 0 and not two'],
    encodes=['carbon.cache:_MetricCache.store / pop / drain_metric / is_full / is_nearly_full (statement-level coroutines)'],
    assumptions=['schedules: writer (one drain) runs p1 statements, receiver (one or two stores) n statements or until blocked, [thorough: writer p2 more], then both to completion',
                 'bound and size exactness asserted at every scheduling point at which the lock is free; MAX_CACHE_SIZE 1..2 (quick) / 1..3 (thorough), flow control on/off (thorough)',
                 'a refusal that lies inside the known-finding region F3 cannot occur here in quick (flow control off); thorough excludes nothing: F3 concerns acceptance, not loss',
                 'counterexamples replayed on real OS threads running the real carbon.cache with its real lock']))
