"""C10 — the cache stays within its configured bound and every refusal is signalled."""
from vp_lib.api import H, cover
from vp_lib import cachelab as L


def _store_step(mod, strat, b0, b1, b2, b3, pv, ghost, unbounded, maxsize, flow, mi, ti, v):
  cache = L.build(mod, strat, [b0, b1, b2, b3], [pv, pv + 1, pv + 2, pv + 3], ghost)
  if unbounded:
    L.apply_limits(float('inf'), flow)
  else:
    L.apply_limits(maxsize, flow)
  hard = L.settings['CACHE_SIZE_HARD_MAX']
  soft = L.settings['MAX_CACHE_SIZE']
  metric, ts = L.METRICS[mi], L.STAMPS[ti]
  before = L.contents(cache)
  size0, len0 = cache.size, len(cache)
  existed = metric in before and ts in before[metric]
  had_points = metric in before and len(before[metric]) > 0
  newq0 = list(cache.new_metrics)
  with L.Events() as ev:
    cache.store(metric, (ts, v))
  after = L.contents(cache)
  ok = True
  if cache.size != L.held(cache) + ghost:          # size exact (C02 shares this)
    ok = False
  if not L.bookkeeping_ok(cache, strat):
    ok = False
  if existed:
    cover('update')
    # an update to a cached timestamp is always accepted, never grows the cache, never signals
    expect = dict((m, dict(d)) for m, d in before.items())
    expect[metric][ts] = v
    if after != expect or cache.size != size0 or ev.overflow != 0 or len(cache) != len0:
      ok = False
  elif (not unbounded) and size0 + 1 > hard:       # accepting it would cross the hard limit
    cover('refused')
    # refusal: exactly one overflow signal, contents / size / metric count untouched
    if ev.overflow != 1 or cache.size != size0 or len(cache) != len0:
      ok = False
    if dict((m, d) for m, d in after.items() if d) != dict((m, d) for m, d in before.items() if d):
      ok = False
    if list(cache.new_metrics) != newq0:
      ok = False
  else:
    cover('accepted')
    expect = dict((m, dict(d)) for m, d in before.items())
    expect.setdefault(metric, {})[ts] = v
    if after != expect or cache.size != size0 + 1 or ev.overflow != 0:
      ok = False
    if (ev.full == 1) != ((not unbounded) and size0 >= soft):
      ok = False
    if list(cache.new_metrics) != newq0 + ([] if had_points else [metric]):
      ok = False
  if (not unbounded) and size0 <= hard and cache.size > hard:   # the bound is never crossed
    ok = False
  return ok


def C10_store_step(strat: int, b0: bool, b1: bool, b2: bool, b3: bool, pv: int, ghost: int, unbounded: bool,
                   maxsize: int, flow: bool, mi: int, ti: int, v: int) -> bool:
  """
  pre: 0 <= strat <= 6
  pre: ghost >= 0
  pre: maxsize >= 1
  pre: 0 <= mi <= 2 and 0 <= ti <= 2
  post: __return__
  """
  return _store_step(L.SHADOW, strat, b0, b1, b2, b3, pv, ghost, unbounded, maxsize, flow, mi, ti, v)


def replay_store_step(strat, b0, b1, b2, b3, pv, ghost, unbounded, maxsize, flow, mi, ti, v):
  return _store_step(L.real_cache, strat, b0, b1, b2, b3, pv, ghost, unbounded, maxsize, flow, mi, ti, v)


def C10_limits(maxsize: int, flow: bool) -> bool:
  """
  pre: maxsize >= 1
  post: __return__
  """
  # conf.py's derived limits: LOW < MAX <= HARD for every positive MAX_CACHE_SIZE
  L.apply_limits(maxsize, flow)
  low, hard = L.settings['CACHE_SIZE_LOW_WATERMARK'], L.settings['CACHE_SIZE_HARD_MAX']
  return low < maxsize <= hard and (flow or hard == maxsize) and hard <= maxsize * 1.05


_STRAT_SHARDS = [('s%d_%s_%s' % (i, n or 'none', 'inf' if u else 'bounded'), 'strat == %d and unbounded == %s' % (i, u))
                 for i, n in enumerate(L.STRATEGY_NAMES) for u in (False, True)]

HARNESSES = [
  H('C10_store_step', quick=dict(timeout=240, shards=_STRAT_SHARDS), thorough=dict(timeout=900, shards=_STRAT_SHARDS),
    covers=['update', 'refused', 'accepted'], replay='replay_store_step',
    encodes=['carbon.cache:_MetricCache.store', 'carbon.cache:_MetricCache.is_full', 'carbon.cache:_MetricCache.is_nearly_full',
             'carbon.cache:BucketMaxStrategy.store', 'carbon.conf: CACHE_SIZE_LOW_WATERMARK/CACHE_SIZE_HARD_MAX derivation (statements extracted from the current source)'],
    assumptions=['inductive step: pre-state = real _MetricCache built by real store() calls for a symbolic subset of '
                 '2 metrics x 2 timestamps (values pv..pv+3, pv symbolic), plus a symbolic ghost count of datapoints of other metrics added to size; '
                 'MAX_CACHE_SIZE any positive int or inf, flow control on/off, one store of metric in {a,b,c} at timestamp in {10,20,30} with a symbolic value',
                 'carbon.cache executed as a message-stripped shadow module (log formatting realises the symbolic size); replay on the real module']),
]
