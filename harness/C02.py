"""C02 — the cache neither loses nor duplicates datapoints; last write wins; size exact."""
from vp_lib.api import H, cover
from vp_lib import cachelab as L
from vp_lib.carbonenv import make_receiver, quiet

import carbon.protocols as protocols  # noqa: E402

quiet(protocols)
# sub-second timestamps (pickle senders transmit floats): two of them share a whole second and are
# stored later-one-first, so ordering / de-duplication by truncated timestamp is visible
L.STAMPS = [10.75, 10.25, 30]


def _sorted_unique(batch):
  for i in range(1, len(batch)):
    if not batch[i - 1][0] < batch[i][0]:
      return False
  return True


def _store_step(mod, strat, b0, b1, b2, b3, pv, ghost, mi, ti, v, full):
  cache = L.build(mod, strat, [b0, b1, b2, b3], [pv, pv + 1, pv + 2, pv + 3], ghost)
  if full and cache.size >= 1:
    L.apply_limits(cache.size, False)                # the cache sits exactly at its hard limit
  metric, ts = L.METRICS[mi], L.STAMPS[ti]
  before = L.contents(cache)
  size0 = cache.size
  existed = metric in before and ts in before[metric]
  cache.store(metric, (ts, v))
  after = L.contents(cache)
  expect = dict((m, dict(d)) for m, d in before.items())
  if full and size0 >= 1 and not existed:
    cover('refused')                                 # not accepted: nothing may change (C10 checks the signalling)
    return (dict((m, d) for m, d in after.items() if d) == expect and cache.size == size0
            and cache.size == L.held(cache) + ghost)
  expect.setdefault(metric, {})[ts] = v              # last write wins, nothing else changes
  cover('update' if existed else 'insert')
  return (after == expect and cache.size == size0 + (0 if existed else 1)
          and cache.size == L.held(cache) + ghost and L.bookkeeping_ok(cache, strat)
          and cache.get_datapoints(metric) == sorted(expect[metric].items()))


def C02_store_step(strat: int, b0: bool, b1: bool, b2: bool, b3: bool, pv: int, ghost: int,
                   mi: int, ti: int, v: int, full: bool) -> bool:
  """
  pre: 0 <= strat <= 6
  pre: ghost >= 0
  pre: 0 <= mi <= 2 and 0 <= ti <= 2
  post: __return__
  """
  return _store_step(L.SHADOW, strat, b0, b1, b2, b3, pv, ghost, mi, ti, v, full)


def replay_store_step(strat, b0, b1, b2, b3, pv, ghost, mi, ti, v, full):
  return _store_step(L.real_cache, strat, b0, b1, b2, b3, pv, ghost, mi, ti, v, full)


def _drain_step(mod, strat, b0, b1, b2, b3, pv, ghost, rnd):
  cache = L.build(mod, strat, [b0, b1, b2, b3], [pv, pv + 1, pv + 2, pv + 3], ghost)
  mod.choice = lambda seq: seq[rnd % len(seq)]          # random strategy: symbolic pick
  before = L.contents(cache)
  size0 = cache.size
  metric, batch = cache.drain_metric()
  after = L.contents(cache)
  if not before:
    cover('empty')
    return metric is None and batch == [] and cache.size == size0
  cover('drained')
  if metric is None:
    return False                                        # lag is 0: something must come out
  if metric not in before:
    return False
  expect_batch = sorted(before[metric].items())
  expect_after = dict((m, d) for m, d in before.items() if m != metric)
  return (batch == expect_batch and _sorted_unique(batch) and after == expect_after
          and cache.size == size0 - len(expect_batch) and cache.size == L.held(cache) + ghost)


def C02_drain_step(strat: int, b0: bool, b1: bool, b2: bool, b3: bool, pv: int, ghost: int, rnd: int) -> bool:
  """
  pre: 0 <= strat <= 6
  pre: ghost >= 0
  pre: 0 <= rnd <= 1
  post: __return__
  """
  return _drain_step(L.SHADOW, strat, b0, b1, b2, b3, pv, ghost, rnd)


def replay_drain_step(strat, b0, b1, b2, b3, pv, ghost, rnd):
  return _drain_step(L.real_cache, strat, b0, b1, b2, b3, pv, ghost, rnd)


class _IdentityPickle(object):
  """Codec contract: loads(dumps(x)) == x for plain data -> dumps is the identity here."""
  UnpicklingError = protocols.pickle.UnpicklingError

  @staticmethod
  def dumps(obj, protocol=None):
    return obj


def _query(mod, strat, b0, b1, b2, b3, pv, mi, bulk):
  cache = L.build(mod, strat, [b0, b1, b2, b3], [pv, pv + 1, pv + 2, pv + 3], 0)
  metric = L.METRICS[mi]
  before = L.contents(cache)
  h = make_receiver(protocols.CacheManagementHandler)
  sent = []
  h.sendString = sent.append
  req = ({'type': 'cache-query-bulk', 'metrics': [metric, 'b']} if bulk else {'type': 'cache-query', 'metric': metric})

  class _U(object):
    @staticmethod
    def loads(data):
      return req
  h.unpickler = _U
  old_pickle, old_mc = protocols.pickle, protocols.MetricCache
  protocols.pickle = _IdentityPickle
  protocols.MetricCache = lambda: cache
  try:
    h.stringReceived(b'request')
  finally:
    protocols.pickle, protocols.MetricCache = old_pickle, old_mc
  if len(sent) != 1:
    return False
  cover('answered')
  if bulk:
    got = sent[0]['datapointsByMetric']
    ok = sorted(got.keys()) == sorted(set([metric, 'b']))
    for m in got:
      ok = ok and sorted(got[m]) == sorted(before.get(m, {}).items())
  else:
    ok = sorted(sent[0]['datapoints']) == sorted(before.get(metric, {}).items())
  # a query neither removes nor adds anything
  return ok and dict((m, d) for m, d in L.contents(cache).items() if d) == before


def C02_query(strat: int, b0: bool, b1: bool, b2: bool, b3: bool, pv: int, mi: int, bulk: bool) -> bool:
  """
  pre: 0 <= strat <= 6
  pre: 0 <= mi <= 2
  post: __return__
  """
  return _query(L.SHADOW, strat, b0, b1, b2, b3, pv, mi, bulk)


def replay_query(strat, b0, b1, b2, b3, pv, mi, bulk):
  return _query(L.real_cache, strat, b0, b1, b2, b3, pv, mi, bulk)


def _seq(mod, strat, ops, vals, rnd):
  """ops: ints 0..4: 0..3 = store(METRICS[k//2], STAMPS[k%2]), 4 = drain.  Multiset model:
  every accepted datapoint is still cached (visible to a query) or was handed out by exactly one
  drain; for each (metric, timestamp) the surviving value is the most recently stored one."""
  cache = L.build(mod, strat, [False] * 4, [0] * 4, 0)
  mod.choice = lambda seq: seq[rnd % len(seq)]
  model = {}          # (m, t) -> latest value not yet drained
  drained = []
  ok = True
  for i in range(len(ops)):
    op = ops[i]
    if op == 4:
      metric, batch = cache.drain_metric()
      if metric is None:
        if model:
          ok = False
        continue
      expect = sorted((t, v) for (m, t), v in model.items() if m == metric)
      if batch != expect or not expect or not _sorted_unique(batch):
        ok = False
      for (t, v) in batch:
        drained.append((metric, t, v))
        model.pop((metric, t), None)
    else:
      metric, ts = L.METRICS[op // 2], L.STAMPS[op % 2]
      cache.store(metric, (ts, vals[i]))
      model[(metric, ts)] = vals[i]
    if cache.size != len(model) or L.held(cache) != len(model):
      ok = False
    for m in ('a', 'b'):
      if cache.get_datapoints(m) != sorted((t, v) for (mm, t), v in model.items() if mm == m):
        ok = False
  cover('ran')
  return ok


def C02_seq(strat: int, o0: int, o1: int, o2: int, o3: int, n: int, v0: int, v1: int, v2: int, v3: int, rnd: int) -> bool:
  """
  pre: 0 <= strat <= 6
  pre: 0 <= o0 <= 4 and 0 <= o1 <= 4 and 0 <= o2 <= 4 and 0 <= o3 <= 4
  pre: 1 <= n <= 4
  pre: 0 <= rnd <= 1
  post: __return__
  """
  return _seq(L.SHADOW, strat, [o0, o1, o2, o3][:n], [v0, v1, v2, v3], rnd)


def replay_seq(strat, o0, o1, o2, o3, n, v0, v1, v2, v3, rnd):
  return _seq(L.real_cache, strat, [o0, o1, o2, o3][:n], [v0, v1, v2, v3], rnd)


_S = [('s%d_%s' % (i, n or 'none'), 'strat == %d' % i) for i, n in enumerate(L.STRATEGY_NAMES)]
_ASSUME = ['inductive step from a pre-state built by real store() calls: symbolic subset of 2 metrics x 2 timestamps '
           '(values pv..pv+3, pv symbolic) plus a symbolic ghost count of datapoints of metrics not materialised',
           'carbon.cache executed as a message-stripped shadow module; every counterexample replayed on the real module',
           'random.choice -> symbolic index; time.time -> concrete clock (MIN_TIMESTAMP_LAG = 0 here; the lag is C17\'s)',
           'timestamps and values are ints (CrossHair\'s float model makes every comparison an FP query)']

HARNESSES = [
  H('C02_store_step', quick=dict(timeout=200, shards=_S), thorough=dict(timeout=600, shards=_S),
    covers=['update', 'insert', 'refused'], replay='replay_store_step',
    encodes=['carbon.cache:_MetricCache.store (also with the cache exactly at CACHE_SIZE_HARD_MAX: an update still wins, a new datapoint changes nothing)', 'carbon.cache:_MetricCache.get_datapoints', 'carbon.cache:BucketMaxStrategy.store'],
    assumptions=_ASSUME),
  H('C02_drain_step', quick=dict(timeout=200, shards=_S), thorough=dict(timeout=600, shards=_S),
    covers=['empty', 'drained'], replay='replay_drain_step',
    encodes=['carbon.cache:_MetricCache.drain_metric', 'carbon.cache:_MetricCache.pop', 'carbon.cache:*Strategy.choose_item'],
    assumptions=_ASSUME),
  H('C02_query', quick=dict(timeout=200, shards=_S), covers=['answered'], replay='replay_query',
    encodes=['carbon.protocols:CacheManagementHandler.stringReceived (cache-query, cache-query-bulk)'],
    assumptions=_ASSUME + ['request dict injected past the unpickler; pickle.dumps of the response = identity (codec contract)']),
  H('C02_seq', quick=dict(timeout=280, shards=_S, extra_pre=['n <= 3']), thorough=dict(timeout=900, shards=_S),
    covers=['ran'], replay='replay_seq',
    encodes=['carbon.cache:_MetricCache.store', 'carbon.cache:_MetricCache.drain_metric', 'carbon.cache:_MetricCache.pop',
             'carbon.cache:_MetricCache.get_datapoints', 'carbon.cache:*Strategy'],
    assumptions=_ASSUME + ['sequences of <= 3 (quick) / <= 4 (thorough) operations store/drain over 2 metrics x 2 timestamps from the empty cache']),
]


# ---- interleavings: receiver thread vs writer thread at statement granularity ------------------------------------
from vp_lib import racelab as R  # noqa: E402


def _race_args(b0, b1, b2, b3, mi, ti, v, p1, n, p2):
  stores = [(L.METRICS[mi], L.STAMPS[ti], v)]
  plan = [('W', p1), ('R', n)] + ([('W', p2)] if p2 else [])
  return [b0, b1, b2, b3], stores, plan


def C02_race(strat: int, b0: bool, b1: bool, b2: bool, b3: bool, pv: int, mi: int, ti: int, v: int, p1: int, n: int, p2: int, nd: int) -> bool:
  """
  pre: 0 <= strat <= 6
  pre: 0 <= mi <= 2 and 0 <= ti <= 2
  pre: 0 <= p1 <= 30 and 0 <= n <= 12 and 0 <= p2 <= 8
  pre: 1 <= nd <= 2
  post: __return__
  """
  bits, stores, plan = _race_args(b0, b1, b2, b3, mi, ti, v, p1, n, p2)
  out = R.symbolic_run(strat, bits, pv, stores, nd, plan)
  if [t for t in out.trace if t[0] == 'R'] and [t for t in out.trace if t[0] == 'W']:
    cover('interleaved')
  if out.errors:
    # an exception inside store/drain is C17's clause (C17_race); the reported size must still be exact
    if out.cache.size != L.held(out.cache):
      raise AssertionError('after %r the reported size is %r but %r datapoints are held' % (out.errors[0][1], out.cache.size, L.held(out.cache)))
    return True
  if out.size_bad is not None:
    raise AssertionError('lock free but size %r != %r datapoints held (after a step of %s)' % (out.size_bad[1], out.size_bad[2], out.size_bad[0]))
  problem = R.conservation_problem(out, stores)
  if problem:
    raise AssertionError(problem)
  return True


def replay_race(strat, b0, b1, b2, b3, pv, mi, ti, v, p1, n, p2, nd):
  """Re-run the schedule on the coroutines to get the statement trace, then enforce that trace on real
  threads running the real carbon.cache."""
  bits, stores, plan = _race_args(b0, b1, b2, b3, mi, ti, v, p1, n, p2)
  sym = R.symbolic_run(strat, bits, pv, stores, nd, plan)
  out = R.real_run(strat, bits, pv, stores, nd, sym.trace)
  if out.replay_problems:
    raise RuntimeError('schedule could not be enforced on real threads: %r' % (out.replay_problems,))
  if out.errors:
    return out.cache.size == L.held(out.cache)
  return R.conservation_problem(out, stores) is None


_RS = [('s%d_%s_m%d_d%d' % (i, n or 'none', m, d), 'strat == %d and mi == %d and nd == %d' % (i, m, d)) for i, n in enumerate(L.STRATEGY_NAMES) for m in range(3) for d in (1, 2)]
_RQ = [('s%d_%s_m%d' % (i, L.STRATEGY_NAMES[i] or 'none', m), 'strat == %d and mi == %d and nd == 1' % (i, m)) for i in (0, 3, 6) for m in (0, 2)]
HARNESSES.append(
  H('C02_race', quick=dict(timeout=420, shards=_RQ, extra_pre=['p2 == 0', 'p1 <= 18', 'n in (0, 3, 6, 9, 12)', 'b1 == False and b3 == False', 'b0 or b2', 'ti != 1']), thorough=dict(timeout=900, shards=_RS, extra_pre=['b1 == False and b3 == False', 'p2 in (0, 3)', 'ti != 1']),
    covers=['interleaved'], replay='replay_race', twin_pre=['strat == 3 and mi == 0'],
    encodes=['carbon.cache:_MetricCache.store', 'carbon.cache:_MetricCache.drain_metric', 'carbon.cache:_MetricCache.pop',
             'carbon.cache:_MetricCache._check_available_space', 'carbon.cache:*Strategy.choose_item / store (statement-level coroutines)'],
    assumptions=['schedules: the writer (one drain quick / one or two thorough) runs p1 statements, the receiver (one store: symbolic metric, timestamp, value) runs n statements or until it '
                 'blocks on the lock, [thorough: the writer runs p2 more,] then both run to completion; p1 <= 16, n <= 12, p2 <= 8 exceed the number of yield points '
                 'of the instrumented functions; more preemptions and sub-statement (GIL-level) interleavings are outside',
                 'coroutines regenerated from the current source of carbon.cache (log statements stripped); cooperative lock with atomic try-acquire; '
                 'every counterexample replayed on real OS threads with the real threading.Lock, the schedule enforced by a line tracer'] + _ASSUME[2:]))
