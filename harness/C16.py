"""C16 — rule-based and aggregation-aware routing follow their rule files."""
import os
import re

from vp_lib.api import H, cover, pick, boot_carbon, scratch_dir

boot_carbon()
from carbon import routers, relayrules  # noqa: E402
from carbon.exceptions import CarbonConfigException  # noqa: E402

DESTS = [('10.0.0.1', 2004, 'a'), ('10.0.0.2', 2004, 'a'), ('10.0.0.3', 2004, 'b')]


def _mask(m, items):
  return [x for i, x in enumerate(items) if (m >> i) & 1]


def C16_rules_logic(n: int, match: int, cont: int, d0: int, d1: int, d2: int, d3: int, configured: int) -> bool:
  """
  pre: 1 <= n <= 4
  pre: 0 <= match < 8 and 0 <= cont < 8
  pre: 0 <= d0 < 8 and 0 <= d1 < 8 and 0 <= d2 < 8 and 0 <= d3 < 8
  pre: 0 <= configured < 8
  post: __return__
  """
  # n rules: n-1 pattern rules (match result = symbolic bit) followed by the default rule
  dmasks = [d0, d1, d2, d3]
  rules = []
  for i in range(n - 1):
    bit = ((match >> i) & 1) == 1
    rules.append(relayrules.RelayRule(condition=(lambda m, bit=bit: bit), destinations=_mask(dmasks[i], DESTS),
                                      continue_matching=((cont >> i) & 1) == 1))
  rules.append(relayrules.RelayRule(condition=lambda m: True, destinations=_mask(dmasks[n - 1], DESTS)))
  r = object.__new__(routers.RelayRulesRouter)
  r.rules = rules
  r.destinations = set()
  for d in _mask(configured, DESTS):
    r.addDestination(d)
  got = list(r.getDestinations('some.metric'))
  # reference: first matching rule; later matching rules only while rules are marked continue; ends at the
  # default rule; unconfigured destinations never returned; file order preserved
  want = []
  for i, rule in enumerate(rules):
    is_default = (i == n - 1)
    if is_default or ((match >> i) & 1) == 1:
      want += [d for d in rule.destinations if d in _mask(configured, DESTS)]
      if is_default or ((cont >> i) & 1) == 0:
        break
  cover('routed')
  return got == want


_RULES_DIR = scratch_dir('vp-c16-')
KINDS = ['pattern', 'pattern_continue', 'default', 'default_false', 'absent', 'pattern_continue_false']
_FILES = {}


# a plain anchored prefix, an end anchor, a bare word; matching is case-insensitive (re.I) as carbon compiles them
PATS = ['^a', 'b$', 'c']


def _section(idx, kind):
  dest = '%s:%d:%s' % DESTS[idx]
  name = 'sec%d' % idx
  pat = PATS[idx]
  if kind == 'pattern':
    return '[%s]\npattern = %s\ndestinations = %s\n\n' % (name, pat, dest)
  if kind == 'pattern_continue':
    return '[%s]\npattern = %s\ndestinations = %s\ncontinue = true\n\n' % (name, pat, dest)
  if kind == 'pattern_continue_false':
    return '[%s]\npattern = %s\ndestinations = %s\ncontinue = false\n\n' % (name, pat, dest)
  if kind == 'default':
    return '[%s]\ndefault = true\ndestinations = %s\n\n' % (name, dest)
  if kind == 'default_false':
    return '[%s]\ndefault = false\ndestinations = %s\n\n' % (name, dest)
  return ''


def _gen_rule_files():
  for a in range(len(KINDS)):
    for b in range(len(KINDS)):
      for c in range(len(KINDS)):
        path = os.path.join(_RULES_DIR, 'relay-rules-%d%d%d.conf' % (a, b, c))
        with open(path, 'w') as fh:
          fh.write(_section(0, KINDS[a]) + _section(1, KINDS[b]) + _section(2, KINDS[c]))
        _FILES[(a, b, c)] = path


_gen_rule_files()
METRICS = ['a.b', 'A.B', 'x.b', 'c', 'zzz', 'a.x', 'a.cb', 'xa']


def C16_rules_file(a: int, b: int, c: int, mi: int) -> bool:
  """
  pre: 0 <= a < len(KINDS) and 0 <= b < len(KINDS) and 0 <= c < len(KINDS)
  pre: 0 <= mi < len(METRICS)
  post: __return__
  """
  kinds = [pick(KINDS, a), pick(KINDS, b), pick(KINDS, c)]
  path = _FILES[(a, b, c)]
  metric = pick(METRICS, mi)
  ndefault = len([k for k in kinds if k == 'default'])
  try:
    rules = relayrules.loadRelayRules(path)
  except CarbonConfigException:
    cover('rejected')
    # exactly one default rule is required (an empty file cannot even be read as rules)
    return ndefault != 1
  if ndefault != 1:
    return False
  cover('loaded')
  # expected rule list: pattern sections in file order, the default rule last
  want = []
  for i, k in enumerate(kinds):
    if k.startswith('pattern'):
      want.append((PATS[i], [DESTS[i]], k == 'pattern_continue'))
  di = kinds.index('default')
  if len(rules) != len(want) + 1:
    return False
  for rule, (pat, dests, cont) in zip(rules, want):
    if rule.destinations != dests or rule.continue_matching != cont:
      return False
    if rule.matches(metric) != bool(re.search(pat, metric, re.I)):
      return False
  last = rules[-1]
  if last.destinations != [DESTS[di]] or last.continue_matching or not last.matches(metric):
    return False
  # end to end through the real router: first match, continue chain, default
  r = object.__new__(routers.RelayRulesRouter)
  r.rules = rules
  r.destinations = set(DESTS)
  got = list(r.getDestinations(metric))
  exp = []
  for (pat, dests, cont) in want:
    if re.search(pat, metric, re.I):
      exp += dests
      if not cont:
        break
  else:
    exp += [DESTS[di]]
  return got == exp


class _AggRule(object):
  def __init__(self, result):
    self.result = result

  def get_aggregate_metric(self, metric):
    return self.result


class _HashRouter(object):
  """Recording stand-in for the consistent-hashing router (its own correctness is C05/C06)."""
  replication_factor = 1
  diverse_replicas = False

  def __init__(self):
    self.keys = []

  def getDestinations(self, key):
    self.keys.append(key)
    return [('node-for-' + key, 2004, 'a')]


def C16_agg_route(n: int, r0: int, r1: int, r2: int, fast: bool) -> bool:
  """
  pre: 0 <= n <= 3
  pre: 0 <= r0 <= 2 and 0 <= r1 <= 2 and 0 <= r2 <= 2
  post: __return__
  """
  # every aggregation rule maps the metric to: nothing / aggregate A / aggregate B (symbolic)
  names = [None, 'agg.A', 'agg.B']
  results = [names[x] for x in [r0, r1, r2][:n]]
  cls = routers.FastAggregatedHashingRouter if fast else routers.AggregatedConsistentHashingRouter
  r = object.__new__(cls)
  r.hash_router = _HashRouter()
  r.agg_rules_manager = type('M', (), {'rules': [_AggRule(x) for x in results]})()
  got = sorted(r.getDestinations('in.metric'))
  aggs = sorted(set(x for x in results if x is not None))
  keys = aggs if aggs else ['in.metric']
  cover('aggregated' if aggs else 'raw')
  # routed to the hash destinations of EVERY aggregate it feeds (so that all inputs of one aggregate meet
  # at one aggregator), by its own name when no rule matches
  return got == sorted(('node-for-' + k, 2004, 'a') for k in keys) and sorted(set(r.hash_router.keys)) == keys


# ---- aggregation-aware routing across a reload of the rules file ------------------------------------------
from carbon.aggregator import rules as aggrules  # noqa: E402

_AGG_OUT = ['agg.<x>.sum', 'total.<x>']
_AGG_IN = ['in.<x>', 'in2.<x>']
_AGG_FILES = {}


def _gen_agg_files():
  for o in range(2):
    for i in range(2):
      path = os.path.join(_RULES_DIR, 'aggregation-rules-%d%d.conf' % (o, i))
      with open(path, 'w') as fh:
        fh.write('# generated\n%s (60) = sum %s\n' % (_AGG_OUT[o], _AGG_IN[i]))
      _AGG_FILES[(o, i)] = path
  path = os.path.join(_RULES_DIR, 'aggregation-rules-empty.conf')
  open(path, 'w').close()
  _AGG_FILES[None] = path


_gen_agg_files()
_AGG_METRICS = ['in.a', 'in2.a', 'other.a']


def _agg_expected(choice, metric):
  if choice is None:
    return [metric]
  o, i = choice
  prefix = _AGG_IN[i].split('<')[0]
  if metric.startswith(prefix) and '.' not in metric[len(prefix):]:
    return [_AGG_OUT[o].replace('<x>', metric[len(prefix):])]
  return [metric]


def C16_agg_reload(cfg: int, mm: int) -> bool:
  """
  pre: 0 <= cfg < 64
  pre: 0 <= mm < 9
  post: __return__
  """
  # the router follows the rules file that is on disk: metrics routed before a reload are routed by the new
  # rules afterwards (same input pattern, other aggregate name included)
  import shutil as _sh
  cfg, mm = int(cfg), int(mm)                 # one concrete configuration per path
  o1, i1, o2, i2 = cfg & 1, (cfg >> 1) & 1, (cfg >> 2) & 1, (cfg >> 3) & 1
  second_empty, touched = ((cfg >> 4) & 1) == 1, ((cfg >> 5) & 1) == 1
  mi, m2 = mm % 3, mm // 3
  first = (o1, i1)
  second = None if second_empty else (o2, i2)
  path = os.path.join(_RULES_DIR, 'agg-live-%d%d%d%d%d%d.conf' % (o1, i1, o2, i2, second_empty, touched))
  _sh.copyfile(_AGG_FILES[first], path)
  os.utime(path, (1000, 1000))
  rm = aggrules.RuleManager.__class__()
  rm.rules_file = path
  old_log = aggrules.log
  aggrules.log = type('L', (), {'__getattr__': lambda self, n: (lambda *a, **k: None)})()
  try:
    rm.read_rules()
    r = object.__new__(routers.AggregatedConsistentHashingRouter)
    r.hash_router = _HashRouter()
    r.agg_rules_manager = rm
    ok = True
    for idx in (mi, m2):
      metric = _AGG_METRICS[idx]
      r.hash_router.keys = []
      list(r.getDestinations(metric))
      if r.hash_router.keys != _agg_expected(first, metric):
        ok = False
    if touched:
      _sh.copyfile(_AGG_FILES[second], path)
      os.utime(path, (2000, 2000))
    rm.read_rules()
    current = second if touched else first
    cover('reloaded' if touched else 'untouched')
    for idx in (mi, m2):
      metric = _AGG_METRICS[idx]
      r.hash_router.keys = []
      list(r.getDestinations(metric))
      if r.hash_router.keys != _agg_expected(current, metric):
        raise AssertionError('%r routed by %r, the rules file says %r' % (metric, r.hash_router.keys, _agg_expected(current, metric)))
  finally:
    aggrules.log = old_log
    if os.path.exists(path):
      os.remove(path)
  return ok


HARNESSES = [
  H('C16_rules_logic', quick=dict(timeout=280, shards=[('n%d' % k, 'n == %d' % k) for k in (1, 2)] + [('n%d_m%d' % (k, m), 'n == %d and match == %d' % (k, m)) for k in (3, 4) for m in range(8)],
                                  extra_pre=['configured >= 3', 'd0 in (1, 7) and d1 in (2, 7) and d2 in (4, 6) and d3 in (1, 7)']),
    thorough=dict(timeout=900, extra_pre=['d0 in (1, 2, 4, 7) and d1 in (1, 2, 4, 7) and d2 in (1, 2, 4, 7) and d3 in (1, 2, 4, 7)'], shards=[('n%d_c%d' % (k, c), 'n == %d and configured == %d' % (k, c)) for k in (1, 2, 3, 4) for c in range(8)]),
    covers=['routed'],
    encodes=['carbon.routers:RelayRulesRouter.getDestinations', 'carbon.relayrules:RelayRule.matches'],
    assumptions=['real RelayRule objects whose condition returns a symbolic bit (abstracts `re`); 1-4 rules, symbolic continue flags, '
                 'symbolic destination subsets of 3 destinations, symbolic configured set']),
  H('C16_rules_file', quick=dict(timeout=280, shards=[('a%d' % k, 'a == %d' % k) for k in range(len(KINDS))], extra_pre=['mi <= 3']),
    thorough=dict(timeout=900, shards=[('a%d' % k, 'a == %d' % k) for k in range(len(KINDS))]),
    covers=['rejected', 'loaded'], twin_pre=['a == 0'],
    encodes=['carbon.relayrules:loadRelayRules', 'carbon.routers:RelayRulesRouter.getDestinations', 'carbon.conf:OrderedConfigParser'],
    assumptions=['relay-rules files of 3 sections, each of a symbolic kind {pattern, pattern+continue, pattern+continue=false, default, default=false, absent}; '
                 'files generated at import time; metric from a table of %d names' % len(METRICS)]),
  H('C16_agg_route', quick=dict(timeout=200), covers=['aggregated', 'raw'],
    encodes=['carbon.routers:AggregatedConsistentHashingRouter.getDestinations', 'carbon.routers:FastAggregatedHashingRouter'],
    assumptions=['0-3 stub aggregation rules mapping the metric to nothing / aggregate A / aggregate B (symbolic); recording hash router (C05/C06 cover the hashing); '
                 'the rule regexes themselves are C08_pattern']),
  H('C16_agg_reload', quick=dict(timeout=280, shards=[('c%d' % k, 'cfg %% 4 == %d' % k) for k in range(4)]),
    covers=['reloaded', 'untouched'],
    encodes=['carbon.aggregator.rules:RuleManager.read_rules / parse_definition', 'carbon.aggregator.rules:AggregationRule.get_aggregate_metric (metric name cache)',
             'carbon.routers:AggregatedConsistentHashingRouter.getDestinations'],
    assumptions=['one-rule aggregation-rules files (2 output x 2 input patterns, or empty), loaded, two metrics routed, file rewritten (symbolic choice) with a newer mtime or left alone, '
                 're-read, the same metrics routed again; recording hash router']),
]
