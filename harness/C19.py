"""C19 — new metrics get the first matching storage schema and aggregation policy."""
import os
import shutil

from crosshair.tracers import NoTracing
from crosshair.core import realize

from vp_lib.api import H, cover, pick, scratch_dir, FIXTURES

# private CONF_DIR: C19_writer_reload rewrites the live storage-schemas.conf / storage-aggregation.conf
_LIVE = scratch_dir('vp-c19-conf-')
shutil.copyfile(os.path.join(FIXTURES, 'conf', 'storage-schemas.conf'), os.path.join(_LIVE, 'storage-schemas.conf'))
os.environ['VP_CONF_DIR'] = _LIVE

from vp_lib import cachelab as K  # noqa: E402
from vp_lib import writerlab as W

import carbon.storage as storage  # noqa: E402
import carbon.util as cutil  # noqa: E402
from carbon.storage import PatternSchema, Archive, defaultSchema, defaultAggregation  # noqa: E402
from vp_lib.carbonenv import quiet  # noqa: E402

quiet(storage)
ARCHIVES = [[Archive(10, 100)], [Archive(60, 1440), Archive(300, 2000)], [Archive(1, 60)]]
AGGS = [(0.5, 'sum'), (None, 'max'), (0.0, None)]


def _schema(name, archives, bits):
  s = PatternSchema(name, 'x', archives)
  s.test = lambda metric: bits[metric]        # abstracts the regex (one symbolic bit per metric); `matches` stays real
  return s


def _first_match(cmod, ns, na, smatch, amatch, smatch_b, amatch_b, two):
  bits_s = [{'a': ((smatch >> i) & 1) == 1, 'b': ((smatch_b >> i) & 1) == 1} for i in range(3)]
  bits_a = [{'a': ((amatch >> i) & 1) == 1, 'b': ((amatch_b >> i) & 1) == 1} for i in range(3)]
  schemas = [_schema('s%d' % i, ARCHIVES[i], bits_s[i]) for i in range(ns)] + [defaultSchema]
  aggs = [_schema('a%d' % i, AGGS[i], bits_a[i]) for i in range(na)] + [defaultAggregation]
  cache = K.build(cmod, 3, [True, False, two, False], [5, 0, 6, 0], 0)      # one or two NEW metrics in the same pass
  db = W.RecordingDB()
  W.install(cache, db, None, None, schemas=schemas, agg=aggs)
  try:
    W.writer.writeCachedDataPoints()
  finally:
    W.restore()
  creates = [c for c in db.calls if c[0] == 'create']
  metrics = ['a', 'b'] if two else ['a']
  if sorted(c[1] for c in creates) != metrics:
    raise AssertionError('expected exactly one create per new metric: %r' % ([c[1] for c in creates],))
  for c in creates:
    metric = c[1]
    sm, am = (smatch, amatch) if metric == 'a' else (smatch_b, amatch_b)
    retentions, xff, method = c[2]
    want_ret = [(60, 10080)]                   # documented default: 1 minute for 7 days
    for i in range(ns):
      if (sm >> i) & 1:
        want_ret = [x.getTuple() for x in ARCHIVES[i]]
        cover('schema_matched')
        break
    want_agg = (None, None)
    for i in range(na):
      if (am >> i) & 1:
        want_agg = AGGS[i]
        break
    if retentions != want_ret:
      raise AssertionError('%s created with retentions %r, first matching schema says %r' % (metric, retentions, want_ret))
    if (xff, method) != want_agg:
      raise AssertionError('%s created with (xff, method) %r, first matching aggregation section says %r' % (metric, (xff, method), want_agg))
  cover('created')
  return True


def C19_first_match(ns: int, na: int, smatch: int, amatch: int, smatch_b: int, amatch_b: int, two: bool) -> bool:
  """
  pre: 0 <= ns <= 3 and 0 <= na <= 3
  pre: 0 <= smatch < 8 and 0 <= amatch < 8 and 0 <= smatch_b < 8 and 0 <= amatch_b < 8
  pre: two or (smatch_b == 0 and amatch_b == 0)
  post: __return__
  """
  return _first_match(K.SHADOW, ns, na, smatch, amatch, smatch_b, amatch_b, two)


def replay_first_match(ns, na, smatch, amatch, smatch_b, amatch_b, two):
  return _first_match(K.real_cache, ns, na, smatch, amatch, smatch_b, amatch_b, two)


# ---- retention strings ---------------------------------------------------------------------------------------
NUMBERS = ['1', '5', '10', '45', '60', '90', '300', '3600', '07']
UNITS = ['', 's', 'm', 'h', 'd', 'w', 'y', 'x', 'S', 'min']
MULT = {'s': 1, 'm': 60, 'h': 3600, 'd': 86400, 'w': 604800, 'y': 31536000}


def C19_retention(pn: int, pu: int, qn: int, qu: int, space: bool) -> bool:
  """
  pre: 0 <= pn < len(NUMBERS) and 0 <= qn < len(NUMBERS)
  pre: 0 <= pu < len(UNITS) and 0 <= qu < len(UNITS)
  post: __return__
  """
  ptxt, qtxt = pick(NUMBERS, pn) + pick(UNITS, pu), pick(NUMBERS, qn) + pick(UNITS, qu)
  text = (' %s:%s ' if space else '%s:%s') % (ptxt, qtxt)
  valid = (UNITS[pu] == '' or UNITS[pu] in MULT) and (UNITS[qu] == '' or UNITS[qu] in MULT)
  try:
    got = cutil.parseRetentionDef(text)
  except ValueError:
    cover('rejected')
    return not valid
  if not valid:
    return False
  cover('parsed')
  precision = int(NUMBERS[pn]) * MULT.get(UNITS[pu] or 's')
  if UNITS[qu] == '':
    points = int(NUMBERS[qn])                         # a bare number is a number of points
  else:
    points = int(NUMBERS[qn]) * MULT[UNITS[qu]] / precision   # a duration: duration divided by precision
  if got[0] != precision or got[1] != points:
    raise AssertionError('%r parsed as %r, expected (%r, %r)' % (text, got, precision, points))
  a = Archive.fromString(text)
  return a.getTuple() == (precision, int(points))


# ---- schema files ------------------------------------------------------------------------------------------------
_DIR = scratch_dir('vp-c19-')
SKINDS = ['full_a', 'full_b', 'no_pattern', 'no_retentions', 'absent', 'full_multi']
AKINDS = ['both', 'xff_only', 'method_only', 'neither', 'no_pattern', 'absent']
_SFILES, _AFILES = {}, {}
SPAT = ['^a\\.', '\\.b$', 'c']
SRET = {'full_a': '10s:6h', 'full_b': '60:1440', 'full_multi': '10s:6h, 1m:7d ,10m:5y'}


def _ssec(i, kind):
  name = 'sec_%d' % i
  if kind in SRET:
    return '[%s]\npattern = %s\nretentions = %s\n\n' % (name, SPAT[i], SRET[kind])
  if kind == 'no_pattern':
    return '[%s]\nretentions = 1s:1m\n\n' % name
  if kind == 'no_retentions':
    return '[%s]\npattern = %s\n\n' % (name, SPAT[i])
  return ''


def _asec(i, kind):
  name = 'agg_%d' % i
  xff, meth = ['0.1', '0.5', '1'][i], ['sum', 'max', 'last'][i]
  body = {'both': 'pattern = %s\nxFilesFactor = %s\naggregationMethod = %s\n' % (SPAT[i], xff, meth),
          'xff_only': 'pattern = %s\nxFilesFactor = %s\n' % (SPAT[i], xff),
          'method_only': 'pattern = %s\naggregationMethod = %s\n' % (SPAT[i], meth),
          'neither': 'pattern = %s\n' % SPAT[i],
          'no_pattern': 'xFilesFactor = %s\naggregationMethod = %s\n' % (xff, meth)}.get(kind)
  return '' if body is None else '[%s]\n%s\n' % (name, body)


def _gen():
  for a in range(6):
    for b in range(6):
      for c in range(6):
        sp = os.path.join(_DIR, 'storage-schemas-%d%d%d.conf' % (a, b, c))
        with open(sp, 'w') as fh:
          fh.write('# generated\n' + _ssec(0, SKINDS[a]) + _ssec(1, SKINDS[b]) + _ssec(2, SKINDS[c]))
        _SFILES[(a, b, c)] = sp
        ap = os.path.join(_DIR, 'storage-aggregation-%d%d%d.conf' % (a, b, c))
        with open(ap, 'w') as fh:
          fh.write(_asec(0, AKINDS[a]) + _asec(1, AKINDS[b]) + _asec(2, AKINDS[c]))
        _AFILES[(a, b, c)] = ap


_gen()


def C19_load_schemas(a: int, b: int, c: int) -> bool:
  """
  pre: 0 <= a < 6 and 0 <= b < 6 and 0 <= c < 6
  post: __return__
  """
  kinds = [pick(SKINDS, a), pick(SKINDS, b), pick(SKINDS, c)]
  old = storage.STORAGE_SCHEMAS_CONFIG
  storage.STORAGE_SCHEMAS_CONFIG = _SFILES[(a, b, c)]
  try:
    got = storage.loadStorageSchemas()
  finally:
    storage.STORAGE_SCHEMAS_CONFIG = old
  want = []
  for i, k in enumerate(kinds):
    if k in SRET:                                # only sections with BOTH keys count, in file order
      want.append(('sec_%d' % i, SPAT[i], [Archive.fromString(x).getTuple() for x in SRET[k].split(',')]))
  cover('loaded')
  if len(got) != len(want) + 1 or got[-1] is not defaultSchema:
    raise AssertionError('schema list %r' % ([s.name for s in got],))
  for s, (name, pat, arch) in zip(got, want):
    if s.name != name or s.pattern != pat or [x.getTuple() for x in s.archives] != arch:
      raise AssertionError('section %s loaded as %r %r' % (name, s.name, [x.getTuple() for x in s.archives]))
  return True


def C19_load_aggregation(a: int, b: int, c: int) -> bool:
  """
  pre: 0 <= a < 6 and 0 <= b < 6 and 0 <= c < 6
  post: __return__
  """
  kinds = [pick(AKINDS, a), pick(AKINDS, b), pick(AKINDS, c)]
  old = storage.STORAGE_AGGREGATION_CONFIG
  storage.STORAGE_AGGREGATION_CONFIG = _AFILES[(a, b, c)]
  try:
    got = storage.loadAggregationSchemas()
  finally:
    storage.STORAGE_AGGREGATION_CONFIG = old
  want = []
  for i, k in enumerate(kinds):
    xff, meth = [0.1, 0.5, 1.0][i], ['sum', 'max', 'last'][i]
    if k in ('both', 'xff_only', 'method_only', 'neither'):
      want.append(('agg_%d' % i, (xff if k in ('both', 'xff_only') else None, meth if k in ('both', 'method_only') else None)))
  cover('loaded')
  if len(got) != len(want) + 1 or got[-1] is not defaultAggregation:
    raise AssertionError('aggregation list %r' % ([s.name for s in got],))
  for s, (name, arch) in zip(got, want):
    if s.name != name or tuple(s.archives) != arch:
      raise AssertionError('section %s loaded as %r' % (name, s.archives))
  return True


PERMS = [(0, 1, 2), (0, 2, 1), (1, 0, 2), (1, 2, 0), (2, 0, 1), (2, 1, 0)]
_PFILES = {}


def _gen_perm_files():
  for pi, perm in enumerate(PERMS):
    sp = os.path.join(_DIR, 'perm-schemas-%d.conf' % pi)
    with open(sp, 'w') as fh:
      fh.write(''.join(_ssec(i, 'full_a' if i != 1 else 'full_b') for i in perm))
    ap = os.path.join(_DIR, 'perm-aggregation-%d.conf' % pi)
    with open(ap, 'w') as fh:
      fh.write(''.join(_asec(i, 'both').replace('agg_%d' % i, 'sec_%d' % i) for i in perm))
    _PFILES[pi] = (sp, ap)


_gen_perm_files()


def C19_reload(p1: int, p2: int, p3: int) -> bool:
  """
  pre: 0 <= p1 < len(PERMS) and 0 <= p2 < len(PERMS) and 0 <= p3 < len(PERMS)
  post: __return__
  """
  # the same section names in different orders, in the schema file, the aggregation file and a re-written
  # schema file loaded afterwards (the writer reloads every 60 s): each load follows ITS file's order
  old = storage.STORAGE_SCHEMAS_CONFIG, storage.STORAGE_AGGREGATION_CONFIG
  try:
    storage.STORAGE_SCHEMAS_CONFIG = _PFILES[pick(list(range(len(PERMS))), p1)][0]
    first = storage.loadStorageSchemas()
    storage.STORAGE_AGGREGATION_CONFIG = _PFILES[pick(list(range(len(PERMS))), p2)][1]
    agg = storage.loadAggregationSchemas()
    storage.STORAGE_SCHEMAS_CONFIG = _PFILES[pick(list(range(len(PERMS))), p3)][0]
    again = storage.loadStorageSchemas()
  finally:
    storage.STORAGE_SCHEMAS_CONFIG, storage.STORAGE_AGGREGATION_CONFIG = old
  cover('loaded')
  return ([s.name for s in first[:-1]] == ['sec_%d' % i for i in PERMS[p1]]
          and [s.name for s in agg[:-1]] == ['sec_%d' % i for i in PERMS[p2]]
          and [s.name for s in again[:-1]] == ['sec_%d' % i for i in PERMS[p3]])


SCHEMA_PATTERNS = ['^a\\.', 'b$', 'c', '.*', '^collectd\\.|\\.latency$', '^(x|y)\\.', '\\.count$|^stats', '^$', 'A', '^a']
SCHEMA_METRICS = ['a.b', 'x.a.b', 'apps.web.latency', 'collectd.cpu', 'my.collectd.cpu', 'stats.x', 'x.stats', 'q.count', 'y.z', 'zy.z', '', 'A.c', 'xa']


def C19_pattern_match(pi: int, mi: int, agg: bool) -> bool:
  """
  pre: 0 <= pi < len(SCHEMA_PATTERNS)
  pre: 0 <= mi < len(SCHEMA_METRICS)
  post: __return__
  """
  # a section matches a metric iff its pattern, as a regular expression, is found anywhere in the name
  # (anchors and alternations as written; case-sensitive), for storage-schemas and storage-aggregation alike
  import re
  pattern, metric = pick(SCHEMA_PATTERNS, pi), pick(SCHEMA_METRICS, mi)
  s = PatternSchema('sec', pattern, (0.5, 'sum') if agg else ARCHIVES[0])
  cover('asked')
  return bool(s.matches(metric)) == (re.search(pattern, metric) is not None)


_FIRST_PATTERNS = ['^a\\.', '^$']      # what the section of that name said before


def C19_same_section(cfg: int) -> bool:
  """
  pre: 0 <= cfg < 520
  post: __return__
  """
  # what a section matches is a function of the pattern it carries NOW: a section of the same name built
  # earlier in this process (the other config file, or the same file before it was edited and reloaded)
  # has no influence.  History inside the function, so the counterexample replays in a fresh process.
  import re
  cfg = realize(cfg)
  f, pi, mi, agg = cfg % 2, (cfg // 2) % 10, (cfg // 20) % 13, (cfg // 260) == 1
  with NoTracing():
    before = PatternSchema('sec', _FIRST_PATTERNS[f], ARCHIVES[0] if agg else (0.5, 'sum'))   # e.g. the other file
    before.matches(SCHEMA_METRICS[mi])
    edited = PatternSchema('sec', _FIRST_PATTERNS[f], (0.5, 'sum') if agg else ARCHIVES[0])
    now = PatternSchema('sec', SCHEMA_PATTERNS[pi], (0.5, 'sum') if agg else ARCHIVES[0])
    ok = (bool(now.matches(SCHEMA_METRICS[mi])) == (re.search(SCHEMA_PATTERNS[pi], SCHEMA_METRICS[mi]) is not None)
          and bool(edited.matches(SCHEMA_METRICS[mi])) == (re.search(_FIRST_PATTERNS[f], SCHEMA_METRICS[mi]) is not None))
  cover('asked')
  return ok


_MTIMES = [500, 2000]          # the replacement file is older (restored backup, rsync -t) or newer than the one loaded


def C19_writer_reload(cfg: int) -> bool:
  """
  pre: 0 <= cfg < 144
  post: __return__
  """
  # the writer's periodic reload: after the config file has been replaced (whatever its timestamp), the
  # lists new metrics are matched against follow the file that is on disk
  cfg = realize(cfg)                      # one concrete configuration per path: (first file, replacement, older/newer, which file)
  p1, p2, mi, agg = cfg % 6, (cfg // 6) % 6, (cfg // 36) % 2, (cfg // 72) == 1
  which = 1 if agg else 0
  live = storage.STORAGE_AGGREGATION_CONFIG if agg else storage.STORAGE_SCHEMAS_CONFIG
  if not live.startswith(_LIVE):
    raise LookupError('live config path not under the private CONF_DIR: %r' % live)
  reload_fn = W.writer.reloadAggregationSchemas if agg else W.writer.reloadStorageSchemas
  with NoTracing():              # every input is concrete from here on
    return _writer_reload(p1, p2, mi, agg, which, live, reload_fn)


def _writer_reload(p1, p2, mi, agg, which, live, reload_fn):
  old_log = W.writer.log
  W.writer.log = W.CountingLog()
  try:
    shutil.copyfile(_PFILES[p1][which], live)
    os.utime(live, (1000, 1000))
    reload_fn()
    first = [s.name for s in (W.writer.AGGREGATION_SCHEMAS if agg else W.writer.SCHEMAS)[:-1]]
    reload_fn()                                                  # an untouched file: nothing changes
    shutil.copyfile(_PFILES[p2][which], live)
    os.utime(live, (_MTIMES[mi], _MTIMES[mi]))
    reload_fn()
    second = [s.name for s in (W.writer.AGGREGATION_SCHEMAS if agg else W.writer.SCHEMAS)[:-1]]
  finally:
    W.writer.log = old_log
    W.restore()
    if agg:
      os.remove(live)
    else:
      shutil.copyfile(os.path.join(FIXTURES, 'conf', 'storage-schemas.conf'), live)
  cover('reloaded')
  if first != ['sec_%d' % i for i in PERMS[p1]]:
    return False
  if second != ['sec_%d' % i for i in PERMS[p2]]:
    raise AssertionError('after the file was replaced (mtime %d vs 1000) the writer still matches against %r' % (_MTIMES[mi], second))
  return True


HARNESSES = [
  H('C19_pattern_match', quick=dict(timeout=200), covers=['asked'],
    encodes=['carbon.storage:PatternSchema.__init__ / test / Schema.matches'],
    assumptions=['%d patterns (anchored, unanchored, alternations mixing both, case) x %d metric names, symbolic indices; real `re`' % (len(SCHEMA_PATTERNS), len(SCHEMA_METRICS))]),
  H('C19_same_section', quick=dict(timeout=240, shards=[('q%d' % k, '%d <= cfg < %d' % (65 * k, 65 * k + 65)) for k in range(8)]), covers=['asked'],
    encodes=['carbon.storage:PatternSchema.__init__ / test / Schema.matches (state across instances of one section name)'],
    assumptions=['a section named `sec` is built with one of 2 patterns (and used), then built again with one of %d patterns, as an edited-and-reloaded file or the '
                 'other config file would; %d metric names; both lists; one concrete combination per path (folded symbolic index, 520 combinations in 8 shards)' % (len(SCHEMA_PATTERNS), len(SCHEMA_METRICS))]),
  H('C19_writer_reload', quick=dict(timeout=200), covers=['reloaded'],
    encodes=['carbon.writer:reloadStorageSchemas / reloadAggregationSchemas', 'carbon.storage:loadStorageSchemas / loadAggregationSchemas'],
    assumptions=['the live config file of a private CONF_DIR is replaced by another permutation of three sections with an older or a newer mtime (symbolic), '
                 'then the writer\'s reload function runs; 6 x 6 permutations, both files']),
  H('C19_reload', quick=dict(timeout=280, shards=[('p%d' % k, 'p1 == %d' % k) for k in range(len(PERMS))]), covers=['loaded'],
    encodes=['carbon.storage:loadStorageSchemas', 'carbon.storage:loadAggregationSchemas', 'carbon.conf:OrderedConfigParser (state across instances / reloads)'],
    assumptions=['three loads in one process: schema file, aggregation file, re-written schema file; the same three section names in symbolic orders (6 permutations each)']),
  H('C19_first_match', quick=dict(timeout=280, shards=[('ns%d_%s' % (k, t), 'ns == %d and %s' % (k, 'two and na <= 1' if t == 'two' else 'not two')) for k in range(4) for t in ('one', 'two')]),
    thorough=dict(timeout=900, shards=[('ns%d_na%d_%s' % (k, a, t), 'ns == %d and na == %d and %s' % (k, a, 'two' if t == 'two' else 'not two')) for k in range(4) for a in range(4) for t in ('one', 'two')]),
    covers=['schema_matched', 'created'],
    replay='replay_first_match', twin_pre=['ns == 2'],
    encodes=['carbon.writer:writeCachedDataPoints (create loop)', 'carbon.storage:Schema.matches', 'carbon.storage:defaultSchema / defaultAggregation'],
    assumptions=['0-3 real PatternSchema objects per list whose `test` returns a symbolic bit (abstracts `re`), real default schemas appended; '
                 'real carbon.writer module with a recording backend; one or two new metrics created in the same pass (independent match bits per metric)']),
  H('C19_retention', quick=dict(timeout=280, shards=[('pu%d' % k, 'pu == %d' % k) for k in range(len(UNITS))], extra_pre=['pn % 2 == 1 or qn % 2 == 1']),
    thorough=dict(timeout=900, shards=[('pu%d' % k, 'pu == %d' % k) for k in range(len(UNITS))]),
    covers=['rejected', 'parsed'], twin_pre=['pu == 1'],
    encodes=['carbon.util:parseRetentionDef', 'carbon.util:getUnitString', 'carbon.storage:Archive.fromString'],
    assumptions=['precision and points text = one of %d digit strings + one of %d unit suffixes (all six valid ones, none, three invalid), symbolic indices; '
                 'digit strings are concrete because int()/str formatting realise symbolic numbers' % (len(NUMBERS), len(UNITS))]),
  H('C19_load_schemas', quick=dict(timeout=280, shards=[('a%d' % k, 'a == %d' % k) for k in range(6)]), covers=['loaded'],
    encodes=['carbon.storage:loadStorageSchemas', 'carbon.conf:OrderedConfigParser.read / sections'],
    assumptions=['storage-schemas.conf files of 3 sections, each of a symbolic kind {complete (3 retention shapes), missing pattern, missing retentions, absent}; generated at import time']),
  H('C19_load_aggregation', quick=dict(timeout=280, shards=[('a%d' % k, 'a == %d' % k) for k in range(6)]), covers=['loaded'],
    encodes=['carbon.storage:loadAggregationSchemas'],
    assumptions=['storage-aggregation.conf files of 3 sections, each of a symbolic kind {both keys, xFilesFactor only, aggregationMethod only, neither, missing pattern, absent}']),
]
