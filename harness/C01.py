"""C01 — well-formed datapoints are ingested exactly, however the byte stream is cut."""
import struct

from vp_lib.api import H, cover, pick
from vp_lib.carbonenv import make_receiver, drop_receiver, Recorder, quiet
from vp_lib.shadow import shadow_module

import carbon.protocols as real_protocols  # noqa: E402

SHADOW = shadow_module(real_protocols)
quiet(real_protocols)
quiet(SHADOW)
INF = float('inf')

# position-tagged payload bytes: distinct values so that order / duplication / loss are visible; they
# include the two bytes of a UTF-8 encoded 'é' (0xC3 0xA9) so that cuts fall inside a character.
TAGS = [0x61, 0xC3, 0xA9, 0x62, 0x20, 0x63, 0x64, 0x65]


def _stream(mask, n):
  """n bytes; byte i is the delimiter iff bit i of mask is set, else a position-tagged payload byte."""
  out = []
  for i in range(n):
    out.append(0x0A if (mask >> i) & 1 else TAGS[i % len(TAGS)])
  return bytes(out)


def _line_receiver(mod):
  p = make_receiver(mod.MetricLineReceiver)
  got = []
  p.lineReceived = got.append
  return p, got


def _frame_line_step(mod, blen, n, mask):
  """Inductive step: arbitrary unterminated suffix in _buffer, one more segment arrives."""
  buf = bytes(TAGS[(i + 3) % len(TAGS)] for i in range(blen))
  data = _stream(mask, n)
  p, got = _line_receiver(mod)
  try:
    p._buffer = buf
    p.dataReceived(data)
  finally:
    drop_receiver(p)
  pieces = (buf + data).split(b'\n')
  cover('delivered' if len(pieces) > 1 else 'buffered')
  return got == pieces[:-1] and p._buffer == pieces[-1] and not p.transport.disconnecting


def C01_frame_line_step(blen: int, n: int, mask: int) -> bool:
  """
  pre: 0 <= blen <= 2
  pre: 0 <= n <= 5
  pre: 0 <= mask < 32
  post: __return__
  """
  return _frame_line_step(real_protocols, blen, n, mask)


def _frame_line_cuts(mod, n, mask, c1, c2):
  """One stream, two symbolic cut positions: same lines as unsegmented delivery."""
  data = _stream(mask, n)
  p, got = _line_receiver(mod)
  try:
    for seg in (data[:c1], data[c1:c2], data[c2:]):
      p.dataReceived(seg)
  finally:
    drop_receiver(p)
  pieces = data.split(b'\n')
  cover('cut')
  return got == pieces[:-1] and p._buffer == pieces[-1]


def C01_frame_line_cuts(n: int, mask: int, c1: int, c2: int) -> bool:
  """
  pre: 0 <= n <= 6
  pre: 0 <= mask < 64
  pre: 0 <= c1 <= c2 <= n
  post: __return__
  """
  return _frame_line_cuts(real_protocols, n, mask, c1, c2)


def _frame_pickle(mod, n1, n2, two, c1, c2):
  """1-2 Int32 frames, payload lengths symbolic, two cut positions anywhere incl. inside the prefix."""
  payloads = [bytes(TAGS[i % len(TAGS)] for i in range(n1))]
  if two:
    payloads.append(bytes(TAGS[(i + 2) % len(TAGS)] for i in range(n2)))
  stream = b''.join(struct.pack('!I', len(x)) + x for x in payloads)
  if not (0 <= c1 <= c2 <= len(stream)):
    return True
  p = make_receiver(mod.MetricPickleReceiver)
  got = []
  p.stringReceived = got.append
  try:
    for seg in (stream[:c1], stream[c1:c2], stream[c2:]):
      p.dataReceived(seg)
  finally:
    drop_receiver(p)
  cover('framed')
  return got == payloads and not p.transport.disconnecting


def C01_frame_pickle(n1: int, n2: int, two: bool, c1: int, c2: int) -> bool:
  """
  pre: 0 <= n1 <= 3 and 0 <= n2 <= 3
  pre: two or n2 == 0
  pre: 0 <= c1 <= c2 <= 4 + n1 + (4 + n2 if two else 0)
  post: __return__
  """
  return _frame_pickle(real_protocols, n1, n2, two, c1, c2)


def _frame_paused(mod, line, nf, pause_at, cut, late):
  """Back-pressure in the middle of a segment: the handler of item `pause_at` pauses the receiver (what
  the cacheFull / queue-full signal does), the resume comes after the segment has been consumed (late:
  after the whole stream).  Everything that had arrived must have been delivered once the receiver
  has been resumed, without a further byte from the client."""
  if line:
    payloads = [bytes([TAGS[i % len(TAGS)], 0x61 + i]) for i in range(nf)]
    stream = b''.join(x + b'\n' for x in payloads)
    p = make_receiver(mod.MetricLineReceiver)
  else:
    payloads = [bytes([TAGS[(i + 2) % len(TAGS)]] * (i % 3)) for i in range(nf)]
    stream = b''.join(struct.pack('!I', len(x)) + x for x in payloads)
    p = make_receiver(mod.MetricPickleReceiver)
  if not (0 <= cut <= len(stream)):
    return True
  got = []

  def handler(item):
    got.append(item)
    if len(got) == pause_at + 1:
      cover('paused_mid_segment')
      p.pauseReceiving()

  if line:
    p.lineReceived = handler
  else:
    p.stringReceived = handler
  try:
    p.dataReceived(stream[:cut])
    if not late and p.transport.paused:
      p.resumeReceiving()
    p.dataReceived(stream[cut:])
    if p.transport.paused > p.transport.resumed:
      p.resumeReceiving()
  finally:
    drop_receiver(p)
  if got != payloads:
    raise AssertionError('items that had arrived before the pause were not all delivered after the resume: %d of %d' % (len(got), len(payloads)))
  return not p.transport.disconnecting


def C01_frame_paused(line: bool, nf: int, pause_at: int, cut: int, late: bool) -> bool:
  """
  pre: 1 <= nf <= 3 and 0 <= pause_at < nf
  pre: 0 <= cut <= 18
  post: __return__
  """
  return _frame_paused(real_protocols, line, nf, pause_at, cut, late)


# ---- parsing: symbolic metric name, numeric text from a boundary table ---------------------------------
NAMES = ['a', 'é', 'a.b', '\U0001F600x', 'x;t=v', 'ünï.cödé', 'a/b', 'nb']
NUMS = ['0', '1', '42', '1.5', '-2.25', '1e3', '+7', '1E-12', '1e308', '1.7976931348623157e+308', '5e-324',
        'inf', '-inf', 'Infinity', '1700000060', '1700000060.75', '0.1', '00012', '3.', '.5', '4_2', '１２']
TS_OK = [i for i, s in enumerate(NUMS) if float(s) >= 0 and float(s) != INF]


class _Encoded(object):
  """bytes stand-in whose utf-8 decoding is the given (symbolic) text: the codec round-trip
  decode(encode(s)) == s is assumed here and exercised with real bytes in C01_parse_bytes."""

  def __init__(self, text):
    self.text = text

  def decode(self, encoding='utf-8', errors='strict'):
    return self.text


def _parse(mod, kind, metric, vi, ti, lead, trail, second):
  vs, ts = pick(NUMS, vi), NUMS[pick(TS_OK, ti)]
  ws = ['', ' ', '\t', '  ']
  line = ws[lead] + metric + ' ' + vs + ws[1 + trail % 3] + ts + ws[trail]
  p = make_receiver({'line': mod.MetricLineReceiver, 'udp': mod.MetricDatagramReceiver}[kind], connect=(kind != 'udp'))
  want = [(metric, (float(ts), float(vs)))]
  try:
    with Recorder() as rec:
      if kind == 'line':
        p.lineReceived(_Encoded(line))
      else:
        term = ['\n', '\r\n', ''][second % 3]
        text = line + term
        if second >= 3:                          # two datapoints batched into one datagram
          text = line + (term or '\n') + 'b.second 2 20' + term
          want = want + [('b.second', (20.0, 2.0))]
        p.datagramReceived(_Encoded(text), ('host', 1))
  finally:
    drop_receiver(p)
  cover('parsed')
  if len(rec.items) != len(want):
    raise AssertionError('delivered %d datapoints for %d lines' % (len(rec.items), len(want)))
  for (m, (t, v)), (wm, (wt, wv)) in zip(rec.items, want):
    if m != wm or t != wt or v != wv:
      raise AssertionError('datapoint altered')
  return True


def C01_parse(udp: bool, metric: str, vi: int, ti: int, lead: int, trail: int, second: int) -> bool:
  """
  pre: 1 <= len(metric) <= 2
  pre: all(not c.isspace() for c in metric)
  pre: vi == 3 or vi == 11
  pre: ti == 0 or ti == 8
  pre: 0 <= lead <= 1 and 0 <= trail <= 1
  pre: 0 <= second <= 5
  post: __return__
  """
  # symbolic NAME (every non-whitespace code point), two fixed number spellings
  return _parse(SHADOW, 'udp' if udp else 'line', metric, vi, ti, lead, trail, second)


def C01_parse_nums(udp: bool, ni: int, vi: int, ti: int, lead: int, trail: int, second: int) -> bool:
  """
  pre: 0 <= ni < len(NAMES)
  pre: 0 <= vi < len(NUMS) and 0 <= ti < len(TS_OK)
  pre: 0 <= lead <= 3 and 0 <= trail <= 3
  pre: 0 <= second <= 5
  pre: udp or second == 0
  post: __return__
  """
  # symbolic NUMBER spelling / whitespace / batching, names from a table
  return _parse(SHADOW, 'udp' if udp else 'line', pick(NAMES, ni), vi, ti, lead, trail, second)


def replay_parse_nums(udp, ni, vi, ti, lead, trail, second):
  return replay_parse(udp, NAMES[ni], vi, ti, lead, trail, second)


def replay_parse(udp, metric, vi, ti, lead, trail, second):
  """Real module, real utf-8 bytes."""
  class _Real(object):
    def __init__(self, text):
      self.b = text.encode('utf-8')

    def decode(self, *a, **k):
      return self.b.decode(*a, **k)
  global _Encoded
  keep, _Encoded = _Encoded, _Real
  try:
    return _parse(real_protocols, 'udp' if udp else 'line', metric, vi, ti, lead, trail, second)
  finally:
    _Encoded = keep


NAMES = ['a', 'é', 'a.b', '\U0001F600x', 'x;t=v', 'ünï.cödé', 'a/b', ' '.strip() or 'nb']


def C01_parse_bytes(ni: int, vi: int, ti: int, udp: bool) -> bool:
  """
  pre: 0 <= ni < len(NAMES)
  pre: 0 <= vi < len(NUMS) and 0 <= ti < len(TS_OK)
  post: __return__
  """
  # real utf-8 bytes through the real decode (names from a table incl. non-ASCII and astral characters)
  name = pick(NAMES, ni)
  vs, ts = pick(NUMS, vi), NUMS[pick(TS_OK, ti)]
  data = ('%s %s %s' % (name, vs, ts)).encode('utf-8')
  p = make_receiver(SHADOW.MetricDatagramReceiver if udp else SHADOW.MetricLineReceiver, connect=not udp)
  try:
    with Recorder() as rec:
      if udp:
        p.datagramReceived(data + b'\n', ('host', 1))
      else:
        p.lineReceived(data)
  finally:
    drop_receiver(p)
  cover('parsed')
  return rec.items == [(name, (float(ts), float(vs)))]


# ---- pickle entries ---------------------------------------------------------------------------------------
PNUM = [0, 1, 1700000060, 2 ** 53 + 1, 1.5, 1700000060.75, 5e-324, 1.7976931348623157e+308, INF, -INF, -2.25, True]
PTS = [x for x in PNUM if x >= 0 and x != INF]


def _pickle_entries(mod, n, m0, m1, m2, v0, v1, v2, t0, t1, t2):
  ms, vs, ts = [m0, m1, m2][:n], [v0, v1, v2][:n], [t0, t1, t2][:n]
  names = [m if isinstance(m, str) else pick(NAMES, m) for m in ms]
  entries = [(names[i], (pick(PTS, ts[i]), pick(PNUM, vs[i]))) for i in range(n)]
  p = make_receiver(mod.MetricPickleReceiver)

  class _U(object):
    @staticmethod
    def loads(data):
      return entries
  p.unpickler = _U
  try:
    with Recorder() as rec:
      p.stringReceived(b'frame')
  finally:
    drop_receiver(p)
  cover('unpacked')
  want = [(names[i], (float(pick(PTS, ts[i])), float(pick(PNUM, vs[i])))) for i in range(n)]
  if len(rec.items) != n:
    raise AssertionError('delivered %d of %d entries' % (len(rec.items), n))
  for (m, (t, v)), (wm, (wt, wv)) in zip(rec.items, want):
    if m != wm or t != wt or v != wv or type(t) is not float or type(v) is not float:
      raise AssertionError('entry altered')
  return True


def C01_pickle_entries(n: int, m0: int, m1: int, m2: int, v0: int, v1: int, v2: int, t0: int, t1: int, t2: int) -> bool:
  """
  pre: 0 <= n <= 3
  pre: 0 <= m0 < len(NAMES) and 0 <= m1 < len(NAMES) and 0 <= m2 < len(NAMES)
  pre: 0 <= v0 < len(PNUM) and 0 <= v1 <= 1 and 0 <= v2 <= 1
  pre: 0 <= t0 < len(PTS) and 0 <= t1 <= 1 and 0 <= t2 <= 1
  post: __return__
  """
  return _pickle_entries(SHADOW, n, m0, m1, m2, v0, v1, v2, t0, t1, t2)


def C01_pickle_name(name: str, second: bool) -> bool:
  """
  pre: len(name) <= 2
  post: __return__
  """
  # the metric name of a pickle entry reaches the pipeline untouched, whatever string it is
  return _pickle_entries(SHADOW, 2 if second else 1, name, 1, 0, 4, 0, 0, 2, 1, 0)


def replay_pickle_name(name, second):
  return replay_pickle_entries(2 if second else 1, name, 1, 0, 4, 0, 0, 2, 1, 0)


def replay_pickle_entries(n, m0, m1, m2, v0, v1, v2, t0, t1, t2):
  """Real module AND the real C codec: the entries go through pickle.dumps / SafeUnpickler.loads."""
  import pickle
  from carbon.util import SafeUnpickler
  ms, vs, ts = [m0, m1, m2][:n], [v0, v1, v2][:n], [t0, t1, t2][:n]
  names = [m if isinstance(m, str) else pick(NAMES, m) for m in ms]
  entries = [(names[i], (pick(PTS, ts[i]), pick(PNUM, vs[i]))) for i in range(n)]
  p = make_receiver(real_protocols.MetricPickleReceiver)
  try:
    with Recorder() as rec:
      for proto in (0, 2, 5):
        p.stringReceived(pickle.dumps(entries, protocol=proto))
  finally:
    drop_receiver(p)
  assert p.unpickler is SafeUnpickler
  want = [(names[i], (float(pick(PTS, ts[i])), float(pick(PNUM, vs[i])))) for i in range(n)] * 3
  return rec.items == want


_ASSUME = ['carbon.protocols executed as a shadow module with log statements removed (parse harnesses); framing harnesses run the real class',
           'Twisted\'s LineOnlyReceiver/Int32StringReceiver realise symbolic bytes (concatenation/split): framing harnesses quantify over a symbolic '
           'delimiter mask, symbolic lengths and symbolic cut positions; payload bytes are position-tagged constants incl. a split UTF-8 character',
           'numeric text: table of boundary literals with symbolic index (float()/strtod is C code)']

HARNESSES = [
  H('C01_pickle_name', quick=dict(timeout=200), thorough=dict(timeout=600), covers=['unpacked'], replay='replay_pickle_name',
    encodes=['carbon.protocols:MetricPickleReceiver.stringReceived'],
    assumptions=_ASSUME + ['symbolic metric name of length <= 2 (any code points), fixed numbers, codec stub as in C01_pickle_entries']),
  H('C01_frame_line_step', quick=dict(timeout=200), covers=['delivered', 'buffered'],
    encodes=['carbon.protocols:MetricLineReceiver (delimiter, MAX_LENGTH) + twisted LineOnlyReceiver.dataReceived'],
    assumptions=_ASSUME + ['inductive step over the only state carried between calls (_buffer, <= 2 bytes) and a segment of <= 5 bytes with any delimiter placement']),
  H('C01_frame_line_cuts', quick=dict(timeout=280, shards=[('n%d' % k, 'n == %d and mask < %d' % (k, 2 ** k)) for k in range(5)]),
    thorough=dict(timeout=900, shards=[('n%d' % k, 'n == %d and mask < %d' % (k, 2 ** k)) for k in range(5)] +
                  [('n%d_c%d' % (k, c), 'n == %d and mask < %d and c1 == %d' % (k, 2 ** k, c)) for k in (5, 6) for c in range(k + 1)]), covers=['cut'],
    encodes=['carbon.protocols:MetricLineReceiver + twisted LineOnlyReceiver.dataReceived'],
    assumptions=_ASSUME + ['streams of <= 5 (quick) / 6 (thorough) bytes, every delimiter mask, every pair of cut positions (3 segments)']),
  H('C01_frame_pickle', quick=dict(timeout=280, shards=[('one', 'not two'), ('two', 'two and n1 <= 1 and n2 <= 1')]),
    thorough=dict(timeout=900, shards=[('one', 'not two')] + [('two_%d%d' % (a, b), 'two and n1 == %d and n2 == %d' % (a, b)) for a in range(4) for b in range(4)]), covers=['framed'],
    encodes=['carbon.protocols:MetricPickleReceiver + twisted Int32StringReceiver.dataReceived'],
    assumptions=_ASSUME + ['1-2 frames with payload lengths 0..3, two cut positions anywhere in the stream incl. inside the 4-byte length prefix']),
  H('C01_frame_paused', quick=dict(timeout=200, shards=[('line', 'line'), ('pickle', 'not line')]), covers=['paused_mid_segment'],
    encodes=['carbon.protocols:MetricReceiver.pauseReceiving / resumeReceiving', 'twisted Int32StringReceiver / LineOnlyReceiver.dataReceived'],
    assumptions=_ASSUME + ['1-3 frames / lines, one cut anywhere, the receiver is paused from inside the handler of a symbolic item and resumed after the '
                           'segment (or after the stream); no further bytes arrive afterwards']),
  H('C01_parse', quick=dict(timeout=280, shards=[('line', 'not udp and second == 0'), ('udp1', 'udp and second <= 2')],
                            extra_pre=['len(metric) == 1', 'vi == 3 and ti == 8', 'lead == 0']),
    thorough=dict(timeout=900, shards=[('line', 'not udp and second == 0'), ('udp1', 'udp and second <= 2'), ('udp2', 'udp and second >= 3')]),
    covers=['parsed'], replay='replay_parse',
    encodes=['carbon.protocols:MetricLineReceiver.lineReceived', 'carbon.protocols:MetricDatagramReceiver.datagramReceived',
             'carbon.protocols:MetricReceiver.metricReceived'],
    assumptions=_ASSUME + ['metric: symbolic str of 1 (quick) / <= 2 (thorough) characters, every code point that is not whitespace',
                           'utf-8 decode(encode(s)) == s assumed for the symbolic name (bytes stand-in); real bytes in C01_parse_bytes and in the replay']),
  H('C01_parse_nums', quick=dict(timeout=280, extra_pre=['lead <= 1 and trail == 0', 'ni <= 1', 'vi % 2 == 0'],
                                 shards=[('line', 'not udp')] + [('udp_s%d' % k, 'udp and second == %d' % k) for k in range(6)]),
    thorough=dict(timeout=900, extra_pre=['ni <= 3 and trail <= 1'], shards=[('line_v%d' % v, 'not udp and vi %% 4 == %d' % v) for v in range(4)] + [('udp_s%d_v%d' % (k, v), 'udp and second == %d and vi %% 4 == %d' % (k, v)) for k in range(6) for v in range(4)]),
    covers=['parsed'], replay='replay_parse_nums',
    encodes=['carbon.protocols:MetricLineReceiver.lineReceived', 'carbon.protocols:MetricDatagramReceiver.datagramReceived',
             'carbon.protocols:MetricReceiver.metricReceived'],
    assumptions=_ASSUME + ['%d number spellings x %d timestamp spellings x whitespace variants x line terminators x 1-2 lines per datagram, names from a table' % (len(NUMS), len(TS_OK))]),
  H('C01_parse_bytes', quick=dict(timeout=280, shards=[('line', 'not udp'), ('udp', 'udp')], extra_pre=['vi % 3 == 0', 'ni % 2 == 1']), thorough=dict(timeout=900, shards=[('line', 'not udp'), ('udp', 'udp')]), covers=['parsed'],
    encodes=['carbon.protocols:MetricLineReceiver.lineReceived', 'carbon.protocols:MetricDatagramReceiver.datagramReceived'],
    assumptions=_ASSUME + ['names from a table of %d strings incl. non-ASCII and astral characters, encoded to real utf-8 bytes' % len(NAMES)]),
  H('C01_pickle_entries', quick=dict(timeout=280, extra_pre=['n <= 2', 'm0 <= 3', 'm1 == 1 and v1 == 0 and t1 == 1'], shards=[('v%d' % k, 'v0 %% 3 == %d' % k) for k in range(3)]),
    thorough=dict(timeout=900, extra_pre=['m1 <= 1 and m2 <= 1 and v2 == 0 and t2 == 0'], shards=[('n%d_v%d' % (k, v), 'n == %d and v0 %% 4 == %d' % (k, v)) for k in range(4) for v in range(4)]),
    covers=['unpacked'], replay='replay_pickle_entries',
    encodes=['carbon.protocols:MetricPickleReceiver.stringReceived'],
    assumptions=_ASSUME + ['C pickle codec: loads(dumps(x)) == x for plain data (stub returns the entry list; the replay goes through the real codec in protocols 0, 2, 5)',
                           'entries: <= 2 (quick) / 3 (thorough); names from a table; the first entry has symbolic table indices for both numbers, the others come from small tables (symbolic name: C01_pickle_name)']),
]


# ---- frames as a python2 sender writes them, and the frame length limit, on the REAL C unpickler ------------------------------
def _py2_frame(entries):
  """Protocol-2 pickle of [(name, (ts, value))...] the way cPickle on python2 writes str names: raw
  UTF-8 bytes in SHORT_BINSTRING ('U'), ints as BININT/BININT1, floats as BINFLOAT."""
  out = b'\x80\x02]q\x00('
  for name, (ts, value) in entries:
    raw = name.encode('utf-8')
    out += b'U' + bytes([len(raw)]) + raw
    out += b'J' + struct.pack('<i', ts) + b'G' + struct.pack('>d', value) + b'\x86\x86'
  return out + b'e.'


def _py2_frames(ni, nj, cut):
  names = [pick(NAMES, ni), pick(NAMES, nj)]
  entries = [(names[0], (1700000060, 1.5)), (names[1], (1700000061, -2.25))]
  payload = _py2_frame(entries)
  stream = struct.pack('!I', len(payload)) + payload
  p = make_receiver(real_protocols.MetricPickleReceiver)
  try:
    with Recorder() as rec:
      c = cut % (len(stream) + 1)
      p.dataReceived(stream[:c])
      p.dataReceived(stream[c:])
  finally:
    drop_receiver(p)
  cover('decoded')
  return rec.items == [(n, (float(ts), float(v))) for (n, (ts, v)) in entries]


def C01_py2_frames(ni: int, nj: int, cut: int) -> bool:
  """
  pre: 0 <= ni < len(NAMES) and 0 <= nj < len(NAMES)
  pre: 0 <= cut <= 12
  post: __return__
  """
  return _py2_frames(ni, nj, cut)


def _frame_limit(limit, n, extra_frames):
  """A frame is legal up to PICKLE_RECEIVER_MAX_LENGTH payload bytes (inclusive): it is delivered, and so
  are the frames after it; only a longer one may close the connection."""
  from vp_lib.cachelab import sset
  old = real_protocols.settings['PICKLE_RECEIVER_MAX_LENGTH']
  sset('PICKLE_RECEIVER_MAX_LENGTH', limit)
  try:
    p = make_receiver(real_protocols.MetricPickleReceiver)
  finally:
    sset('PICKLE_RECEIVER_MAX_LENGTH', old)
  got = []
  p.stringReceived = got.append
  payload = bytes(TAGS[i % len(TAGS)] for i in range(n))
  small = b'ok'
  stream = struct.pack('!I', n) + payload + (struct.pack('!I', 2) + small) * extra_frames
  try:
    p.dataReceived(stream)
  finally:
    drop_receiver(p)
  if n <= limit:
    cover('within')
    return got == [payload] + [small] * extra_frames and not p.transport.disconnecting
  cover('too_long')
  return got == [] and p.transport.disconnecting


def C01_frame_limit(limit: int, n: int, extra_frames: int) -> bool:
  """
  pre: 4 <= limit <= 9
  pre: 0 <= n <= 11
  pre: 0 <= extra_frames <= 1
  post: __return__
  """
  return _frame_limit(limit, n, extra_frames)


HARNESSES += [
  H('C01_py2_frames', quick=dict(timeout=280, shards=[('n%d' % k, 'ni == %d' % k) for k in range(len(NAMES))], extra_pre=['cut in (0, 2, 7, 12)']),
    thorough=dict(timeout=600, shards=[('n%d' % k, 'ni == %d' % k) for k in range(len(NAMES))]), covers=['decoded'],
    encodes=['carbon.util:SafeUnpickler.loads (real C engine, encoding of python2 str)', 'carbon.protocols:MetricPickleReceiver.dataReceived / stringReceived'],
    assumptions=['hand-built protocol-2 frames as a python2 cPickle sender writes them (metric names as raw UTF-8 bytes in SHORT_BINSTRING), names from the table incl. non-ASCII and astral '
                 'characters (symbolic indices), one symbolic cut position in the first 12 bytes']),
  H('C01_frame_limit', quick=dict(timeout=200), covers=['within', 'too_long'],
    encodes=['carbon.protocols:MetricPickleReceiver.__init__ (MAX_LENGTH from PICKLE_RECEIVER_MAX_LENGTH)', 'twisted Int32StringReceiver length check'],
    assumptions=['PICKLE_RECEIVER_MAX_LENGTH symbolic in 4..9, payload length symbolic 0..11: the boundary is the same arithmetic at the production value (1 MiB)']),
]
