"""C05 — hash routing returns a well-formed replica set for every ring position."""
from vp_lib.api import H, cover, boot_carbon

boot_carbon()
from carbon import routers, hashing  # noqa: E402


class _Settings(object):
  def __init__(self, rf=1, diverse=False, hash_type='carbon_ch'):
    self.REPLICATION_FACTOR = rf
    self.DIVERSE_REPLICAS = diverse
    self.ROUTER_HASH_TYPE = hash_type


# Destination-set family (server, port, instance).  Index = `cfg` argument of the harnesses.
DEST_SETS = [
  [('10.0.0.1', 2004, 'a')],                                                       # 0: single
  [('10.0.0.1', 2004, 'a'), ('10.0.0.2', 2004, 'a')],                              # 1: two servers, equal instance names
  [('10.0.0.1', 2004, 'a'), ('10.0.0.1', 2104, 'b'), ('10.0.0.2', 2004, 'a')],     # 2: two instances on one server
  [('h1', 2004, 'a'), ('h1', 2104, 'b'), ('h2', 2004, 'a'), ('h2', 2104, 'b')],    # 3
  [('h1', 2004, None), ('h2', 2004, None), ('h3', 2004, None), ('h4', 2004, None),
   ('h5', 2004, None), ('h6', 2004, None)],                                        # 4: six single-instance servers
  [('h1', 2004, 'a'), ('h1', 2104, 'b'), ('h1', 2204, 'c'), ('h2', 2004, 'a'), ('h2', 2104, 'b'),
   ('h3', 2004, 'a'), ('h4', 2004, 'a'), ('h4', 2104, 'b')],                       # 5: eight, uneven
]
HASH_TYPES = ['carbon_ch', 'fnv1a_ch']

_ROUTERS = {}


def _router(cfg, ht):
  """Real router built by real addDestination calls (real md5/fnv: the ring table is concrete)."""
  key = (cfg, ht)
  if key not in _ROUTERS:
    r = routers.ConsistentHashingRouter(_Settings(1, False, HASH_TYPES[ht]))
    for d in DEST_SETS[cfg]:
      r.addDestination(d)
    _ROUTERS[key] = r
  return _ROUTERS[key]


for _c in range(len(DEST_SETS)):     # build at import time, outside CrossHair's tracing
  for _h in range(len(HASH_TYPES)):
    _router(_c, _h)


def _well_formed(out, dests, rf, diverse):
  servers = set(d[0] for d in dests)
  eligible = len(servers) if diverse else len(dests)
  if len(out) != min(rf, eligible):
    return False
  for i in range(len(out)):
    if out[i] not in dests:
      return False
    for j in range(i):
      if out[i] == out[j]:
        return False
      if diverse and out[i][0] == out[j][0]:
        return False
  return True


def _check_ring_pos(cfg, ht, pos):
  dests = DEST_SETS[cfg]
  r = _router(cfg, ht)
  ring = r.ring
  old = (r.replication_factor, r.diverse_replicas)
  ring.compute_ring_position = lambda key: pos
  ok = True
  try:
    first = None
    for rf in (4, 1, 2, 3):
      for diverse in (False, True):
        r.replication_factor = rf
        r.diverse_replicas = diverse
        out = list(r.getDestinations('some.metric'))
        if first is None:
          first = out
        if not _well_formed(out, dests, rf, diverse):
          ok = False
    r.replication_factor, r.diverse_replicas = 4, False
    if list(r.getDestinations('some.metric')) != first:   # same key, same set -> same ordered list
      ok = False
  finally:
    del ring.compute_ring_position
    r.replication_factor, r.diverse_replicas = old
  return ok


_REMOVED = {}


def _router_without(cfg, ht, x):
  key = (cfg, ht, x)
  if key not in _REMOVED:
    r = routers.ConsistentHashingRouter(_Settings(1, False, HASH_TYPES[ht]))
    for d in DEST_SETS[cfg]:
      r.addDestination(d)
    r.removeDestination(DEST_SETS[cfg][x])
    _REMOVED[key] = r
  return _REMOVED[key]


for _c in (2, 3, 5):
  for _h in range(len(HASH_TYPES)):
    for _x in range(len(DEST_SETS[_c])):
      _router_without(_c, _h, _x)


def _check_after_remove(cfg, ht, x, pos):
  cfg, ht, x = int(cfg), int(ht), int(x)          # fixed by the shard precondition: realise once
  dests = [d for i, d in enumerate(DEST_SETS[cfg]) if i != x]
  r = _router_without(cfg, ht, x)
  ring = r.ring
  old = (r.replication_factor, r.diverse_replicas)
  ring.compute_ring_position = lambda key: pos
  ok = True
  try:
    for rf in (4, 1, 2, 3):
      for diverse in (False, True):
        r.replication_factor, r.diverse_replicas = rf, diverse
        if not _well_formed(list(r.getDestinations('some.metric')), dests, rf, diverse):
          ok = False
  finally:
    del ring.compute_ring_position
    r.replication_factor, r.diverse_replicas = old
  return ok


def C05_after_remove(cfg: int, ht: int, x: int, pos: int) -> bool:
  """
  pre: 0 <= pos < 65536
  post: __return__
  """
  # the replica set is well-formed with respect to the CURRENT destination set after a destination left
  ok = _check_after_remove(cfg, ht, x, pos)
  cover('walked')
  return ok


def replay_after_remove(cfg, ht, x, pos):
  return _check_after_remove(cfg, ht, x, pos)


def C05_ring_pos(cfg: int, ht: int, pos: int) -> bool:
  """
  pre: 0 <= pos < 65536
  post: __return__
  """
  ok = _check_ring_pos(cfg, ht, pos)
  cover('walked')
  return ok


def replay_ring_pos(cfg, ht, pos):
  return _check_ring_pos(cfg, ht, pos)


def C05_hash_range_fnv(big: int) -> bool:
  """
  pre: 0 <= big < 4294967296
  post: __return__
  """
  old = hashing.fnv32a
  hashing.fnv32a = lambda data, seed=0: big
  try:
    h = hashing.carbonHash('k', 'fnv1a_ch')
  finally:
    hashing.fnv32a = old
  return 0 <= h <= 65535


_HEX = '0123456789abcdef'


def C05_hash_range_md5(a: int, b: int, c: int, d: int) -> bool:
  """
  pre: 0 <= a < 16 and 0 <= b < 16 and 0 <= c < 16 and 0 <= d < 16
  post: __return__
  """
  digest = _HEX[a] + _HEX[b] + _HEX[c] + _HEX[d] + '0' * 28
  old = hashing.compactHash
  hashing.compactHash = lambda s: digest
  try:
    h = hashing.carbonHash('k', 'carbon_ch')
  finally:
    hashing.compactHash = old
  return h == ((a * 16 + b) * 16 + c) * 16 + d and 0 <= h <= 65535


def _small_ring(p, n_nodes):
  """ConsistentHashRing(replica_count=2) whose replica positions are the symbolic ints p[...]."""
  ring = hashing.ConsistentHashRing([], replica_count=2)
  it = iter(p)
  state = {'lookup': None}

  def position(key):
    if state['lookup'] is not None:
      return state['lookup']
    return next(it)
  ring.compute_ring_position = position
  nodes = [('s%d' % i, 'i') for i in range(n_nodes)]
  for n in nodes:
    ring.add_node(n)
  return ring, nodes, state


def C05_walk_small(n_nodes: int, p0: int, p1: int, p2: int, p3: int, p4: int, p5: int, pos: int) -> bool:
  """
  pre: 1 <= n_nodes <= 3
  pre: 0 <= pos < 65536
  pre: 0 <= p0 < 65536 and 0 <= p1 < 65536 and 0 <= p2 < 65536
  pre: 0 <= p3 < 65536 and 0 <= p4 < 65536 and 0 <= p5 < 65536
  post: __return__
  """
  ring, nodes, state = _small_ring([p0, p1, p2, p3, p4, p5], n_nodes)
  state['lookup'] = pos
  out = list(ring.get_nodes('k'))
  again = list(ring.get_nodes('k'))
  cover('looked_up')
  if out != again:
    return False
  if len(out) != n_nodes:
    return False
  for i in range(len(out)):
    if out[i] not in nodes:
      return False
    for j in range(i):
      if out[i] == out[j]:
        return False
  return True


class _AggRule(object):
  def __init__(self, result):
    self.result = result

  def get_aggregate_metric(self, key):
    return self.result


_AGG_DESTS = [('h1', 2004, 'a'), ('h1', 2104, 'b'), ('h2', 2004, 'a')]
_AGG_POS = [100, 300, 200, 500, 400, 600]        # replica positions of the three destinations on a 2-replica ring


_AGG_MODES = [[], ['agg.A'], ['agg.A', 'agg.B'], ['agg.A', 'agg.A'], [None, 'agg.B', 'agg.A'], [None, None]]


def C05_aggregated(mode: int, pa: int, pb: int, pm: int, rf: int, diverse: bool) -> bool:
  """
  pre: 0 <= mode < len(_AGG_MODES)
  pre: 0 <= pa < 65536 and 0 <= pb < 65536 and 0 <= pm < 65536
  pre: 1 <= rf <= 3
  post: __return__
  """
  # aggregation-aware routing applies hash routing to each aggregate name: whatever the replica sets of
  # the aggregate names are (symbolic ring positions -> overlapping or disjoint), the metric's
  # destination list is their union, every member configured, none repeated.
  results = _AGG_MODES[int(mode)]
  hr = routers.ConsistentHashingRouter(_Settings(rf, diverse, 'carbon_ch'))
  hr.ring = hashing.ConsistentHashRing([], replica_count=2)
  it = iter(_AGG_POS)
  lookups = [('agg.A', pa), ('agg.B', pb), ('in.metric', pm)]

  def position(key):
    for k, v in lookups:
      if k == key:
        return v
    return next(it)
  hr.ring.compute_ring_position = position
  for d in _AGG_DESTS:
    hr.addDestination(d)
  r = object.__new__(routers.AggregatedConsistentHashingRouter)
  r.hash_router = hr
  r.agg_rules_manager = type('M', (), {'rules': [_AggRule(x) for x in results]})()
  out = list(r.getDestinations('in.metric'))
  keys = [k for k in ('agg.A', 'agg.B') if k in results] or ['in.metric']
  want = []
  for k in keys:
    per_name = list(hr.getDestinations(k))
    if not _well_formed(per_name, _AGG_DESTS, rf, diverse):
      return False
    for d in per_name:
      if d not in want:
        want.append(d)
  cover('two_names' if len(keys) == 2 else 'one_name')
  for i in range(len(out)):
    if out[i] not in _AGG_DESTS:
      return False
    for j in range(i):
      if out[i] == out[j]:
        raise AssertionError('aggregation-aware routing returned a destination twice')
  return sorted(out) == sorted(want)


def C05_interleaved(n_nodes: int, pos: int, pos2: int, k: int) -> bool:
  """
  pre: 1 <= n_nodes <= 3
  pre: 0 <= pos < 65536 and 0 <= pos2 < 65536
  pre: 0 <= k <= 3
  post: __return__
  """
  # a look-up is a generator: suspending it after k destinations, running another look-up on the same
  # ring to the end and resuming must give the same list as an undisturbed look-up (same key, same
  # destination set -> same ordered list).
  ring, nodes, state = _small_ring(_AGG_POS, n_nodes)
  state['lookup'] = pos
  alone = list(ring.get_nodes('k'))
  ga = ring.get_nodes('k')
  first = []
  for _ in range(k):
    x = next(ga, None)
    if x is not None:
      first.append(x)
  state['lookup'] = pos2
  other = list(ring.get_nodes('k2'))
  state['lookup'] = pos
  rest = list(ga)
  cover('resumed')
  state['lookup'] = pos2
  return first + rest == alone and other == list(ring.get_nodes('k2'))


def C05_fast(n_nodes: int, h0: int, h1: int, h2: int, h3: int, hk: int) -> bool:
  """
  pre: 1 <= n_nodes <= 4
  pre: 0 <= h0 and 0 <= h1 and 0 <= h2 and 0 <= h3 and 0 <= hk
  post: __return__
  """
  dests = [('h1', 2004, 'a'), ('h1', 2104, 'b'), ('h2', 2004, 'a'), ('h2', 2104, 'b')][:n_nodes]
  hs = {('h1', 'a'): h0, ('h1', 'b'): h1, ('h2', 'a'): h2, ('h2', 'b'): h3}
  r = routers.FastHashingRouter(_Settings(1, False, 'carbon_ch'))
  table = [(str(k), v) for k, v in hs.items()]

  def fake_hash(key):
    for k, v in table:
      if k == key:
        return v
    return hk
  r.ring._hash = fake_hash
  for d in dests:
    r.addDestination(d)
  ok = True
  first = None
  for rf in (4, 1, 2, 3):
    for diverse in (False, True):
      r.replication_factor = rf
      r.diverse_replicas = diverse
      out = list(r.getDestinations('some.metric'))
      if first is None:
        first = out
      if not _well_formed(out, dests, rf, diverse):
        ok = False
  r.replication_factor, r.diverse_replicas = 4, False
  if list(r.getDestinations('some.metric')) != first:
    ok = False
  cover('routed')
  return ok


def _rm_shards(cfgs, gaps_per_shard):
  out = []
  for c in cfgs:
    for h in range(len(HASH_TYPES)):
      for x in range(len(DEST_SETS[c])):
        positions = sorted(set(p for p, _ in _router_without(c, h, x).ring.ring))
        cuts = [0] + [positions[i] + 1 for i in range(gaps_per_shard - 1, len(positions) - 1, gaps_per_shard)] + [65536]
        cuts = sorted(set(min(v, 65536) for v in cuts))
        for k in range(len(cuts) - 1):
          out.append(('cfg%d_%s_x%d_%d' % (c, HASH_TYPES[h], x, k),
                      'cfg == %d and ht == %d and x == %d and %d <= pos < %d' % (c, h, x, cuts[k], cuts[k + 1])))
  return out


def _shards(cfgs, gaps_per_shard):
  """Position ranges holding ~gaps_per_shard ring entries each (read from the real ring tables)."""
  out = []
  for c in cfgs:
    for h in range(len(HASH_TYPES)):
      positions = sorted(set(p for p, _ in _router(c, h).ring.ring))
      cuts = [0] + [positions[i] + 1 for i in range(gaps_per_shard - 1, len(positions) - 1, gaps_per_shard)] + [65536]
      cuts = sorted(set(min(x, 65536) for x in cuts))
      for k in range(len(cuts) - 1):
        out.append(('cfg%d_%s_%d' % (c, HASH_TYPES[h], k),
                    'cfg == %d and ht == %d and %d <= pos < %d' % (c, h, cuts[k], cuts[k + 1])))
  return out


HARNESSES = [
  H('C05_ring_pos',
    quick=dict(timeout=200, shards=_shards([0, 1, 2], 50)),
    thorough=dict(timeout=600, shards=_shards([0, 1, 2, 3, 4, 5], 60)),
    covers=['walked'], replay='replay_ring_pos',
    encodes=['carbon.routers:ConsistentHashingRouter.getDestinations', 'carbon.hashing:ConsistentHashRing.get_nodes',
             'carbon.hashing:ConsistentHashRing.add_node (concrete, builds the ring table)'],
    assumptions=['md5/fnv digests concretised: ring tables are built by the real add_node at import time; '
                 'the key position is a symbolic int over ALL of [0,65536) (compute_ring_position stubbed at lookup)',
                 'destination sets: the fixed family DEST_SETS (1..8 destinations, several instances per server); '
                 'replication factor 1..4 and DIVERSE_REPLICAS both values are enumerated inside every path']),
  H('C05_after_remove', quick=dict(timeout=200, shards=[sh for sh in _rm_shards([2], 25) if sh[0].endswith(('_0', '_4'))]), thorough=dict(timeout=600, shards=_rm_shards([2, 3], 80)),
    covers=['walked'], replay='replay_after_remove',
    encodes=['carbon.routers:ConsistentHashingRouter.removeDestination', 'carbon.routers:ConsistentHashingRouter.getDestinations', 'carbon.hashing:ConsistentHashRing.remove_node'],
    assumptions=['routers built by real addDestination calls followed by one removeDestination (each destination in turn); every ring position symbolic (quick: two position ranges of ~25 ring entries per removed destination; thorough: the whole ring, destination sets 2 and 3); RF 1..4 and DIVERSE both enumerated inside each path']),
  H('C05_aggregated', quick=dict(timeout=280, shards=[('m%d' % k, 'mode == %d' % k) for k in (0, 1, 3, 5)] + [('m%d_rf%d' % (k, f), 'mode == %d and rf == %d' % (k, f)) for k in (2, 4) for f in (1, 2, 3)]),
    covers=['two_names', 'one_name'], twin_pre=['1 <= mode <= 2 and rf == 2 and not diverse'],
    encodes=['carbon.routers:AggregatedConsistentHashingRouter.getDestinations', 'carbon.routers:ConsistentHashingRouter.getDestinations', 'carbon.hashing:ConsistentHashRing.get_nodes'],
    assumptions=['0-3 stub aggregation rules mapping the metric to nothing / aggregate A / aggregate B (six rule-result lists, symbolic index); real consistent-hashing router on a 2-replica ring of three destinations '
                 '(two on one server); the ring positions of both aggregate names and of the metric are symbolic, so their replica sets overlap or not; RF 1..3, DIVERSE both']),
  H('C05_interleaved', quick=dict(timeout=200), covers=['resumed'],
    encodes=['carbon.hashing:ConsistentHashRing.get_nodes (generator state)'],
    assumptions=['2-replica ring of 1-3 nodes, two symbolic positions; the first look-up is suspended after k destinations while a second one runs to completion']),
  H('C05_walk_small', quick=dict(timeout=240, shards=[('n1', 'n_nodes == 1'), ('n2', 'n_nodes == 2')]),
    thorough=dict(timeout=1500, shards=[('n1', 'n_nodes == 1'), ('n2', 'n_nodes == 2'), ('n3', 'n_nodes == 3')]),
    covers=['looked_up'],
    encodes=['carbon.hashing:ConsistentHashRing.add_node', 'carbon.hashing:ConsistentHashRing.get_nodes'],
    assumptions=['replica_count lowered to 2 (>= 2 keeps the `index != last_index` guard from hiding a node, as with the production value 100)']),
  H('C05_fast', quick=dict(timeout=300, shards=[('n%d' % n, 'n_nodes == %d' % n) for n in (1, 2, 3, 4)]),
    covers=['routed'],
    encodes=['carbon.routers:FastHashRing.get_nodes', 'carbon.routers:FastHashRing._update_nodes',
             'carbon.routers:FastHashingRouter (getDestinations inherited)'],
    assumptions=['FastHashRing._hash returns arbitrary non-negative ints (mmh3 is not installed; any hash type)']),
]


# ---- engine S: ring positions lie in [0, 65535] (justifies the domain of `pos`) ---------------------------------------------
def _range_lemmas(tier):
  import ast
  import inspect
  import textwrap
  import z3
  from vp_lib import pysym
  out = []
  src = ast.parse(textwrap.dedent(inspect.getsource(hashing.carbonHash)))
  fold = None
  for node in ast.walk(src):
    if isinstance(node, ast.Assign) and any(isinstance(x, ast.RShift) for x in ast.walk(node.value)):
      fold = node.value
  if fold is None:
    return [dict(name='C05 fold translation', verdict='unknown', detail='no shift/xor fold found in carbonHash', queries=0)]
  big = z3.BitVec('big_hash', 64)
  it = pysym.Interp(pysym.Clock(z3.RealVal(0)))
  fr = {'env': {'big_hash': big}, 'active': z3.BoolVal(True), 'returned': z3.BoolVal(False), 'ret': None}
  try:
    small = it.eval(fold, fr)
  except pysym.Unsupported as e:
    return [dict(name='C05 fold translation', verdict='unknown', detail=repr(e), queries=0)]
  v, m, dt = pysym.check(z3.Solver, [z3.ULT(big, z3.BitVecVal(2 ** 32, 64))], z3.ULE(small, z3.BitVecVal(65535, 64)), 60000)
  out.append(dict(name='H1 fnv1a_ch: the folded 32-bit hash lies in [0, 65535] for every 32-bit value', verdict=v, model=m,
                  solver_time_s=round(dt, 4), queries=1, detail='', witness={'big_hash': 'any value below 2**32'}))
  # carbon_ch: int(hex[:4], 16) of four hex digits is at most 0xffff -- positional notation, checked for the digits as symbols
  d = z3.Ints('d0 d1 d2 d3')
  val = ((d[0] * 16 + d[1]) * 16 + d[2]) * 16 + d[3]
  v, m, dt = pysym.check(z3.Solver, [z3.And(x >= 0, x <= 15) for x in d], z3.And(val >= 0, val <= 65535), 60000)
  out.append(dict(name='H2 carbon_ch: four hex digits denote a value in [0, 65535]', verdict=v, model=m, solver_time_s=round(dt, 4),
                  queries=1, detail='', witness={'digits': 'any four hex digits'}))
  # and the real function agrees with that reading of the digest on concrete digests (translation check)
  import hashlib
  for key in ('a', 'servers.x.cpu', "('10.0.0.1', 'a'):7"):
    want = int(hashlib.md5(key.encode()).hexdigest()[:4], 16)
    if hashing.carbonHash(key, 'carbon_ch') != want:
      out.append(dict(name='H2 digest reading', verdict='error', detail='carbonHash(%r) differs from int(md5[:4],16)' % key, queries=0))
  return out


from vp_lib.api import S  # noqa: E402
HARNESSES.append(
  S('C05_hash_range', _range_lemmas, encodes=['carbon.hashing:carbonHash (fnv1a_ch fold translated from the current source; carbon_ch digit reading)'],
    assumptions=['fnv32a returns a 32-bit unsigned value; md5 hexdigest consists of hex digits']))
