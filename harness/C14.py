"""C14 — no metric name can place a file outside the data directory."""
import sys
import types

from vp_lib.api import H, cover, boot_carbon, pick
from vp_lib.shadow import shadow, shadow_module

boot_carbon()
import carbon.util as cutil  # noqa: E402
import carbon.database as real_database  # noqa: E402


class _FakeDigest(object):
  def hexdigest(self):
    return 'a1b2c3' + '0' * 58


def _fake_sha256(data):
  return _FakeDigest()


TS = shadow(cutil.TaggedSeries, extra_globals={'sha256': _fake_sha256})

# WhisperDatabase is only defined when `import whisper` succeeds: re-execute carbon.database's current
# source with a stub `whisper` module so that the real class body (path mapping) exists.
_stub = types.ModuleType('whisper')
_stub.aggregationMethods = ['average', 'sum', 'last', 'max', 'min']
for _n in ('AUTOFLUSH', 'CAN_FALLOCATE', 'CAN_LOCK', 'LOCK', 'CAN_FADVISE', 'FADVISE_RANDOM'):
  setattr(_stub, _n, False)
_had = sys.modules.get('whisper')
sys.modules['whisper'] = _stub
try:
  DB = shadow_module(real_database)
finally:
  if _had is None:
    del sys.modules['whisper']
  else:
    sys.modules['whisper'] = _had
DB.TaggedSeries = TS
DATA_DIRS = ['/opt/graphite/storage/whisper', '/opt/graphite/storage/whisper/', '/data', 'relative/dir']


def _confined(encoded):
  """Lexical confinement of a relative path below its base directory: not absolute, and walking its
  '/'-separated segments never climbs above the base ('..' pops one level, '.' and '' stay)."""
  if encoded.startswith('/'):
    return False
  depth = 0
  for seg in encoded.split('/'):
    if seg == '..':
      depth -= 1
      if depth < 0:
        return False
    elif seg != '' and seg != '.':
      depth += 1
  return True


def C14_encode(metric: str, hash_only: bool) -> bool:
  """
  pre: len(metric) <= 5
  post: __return__
  """
  enc = TS.encode(metric, '/', hash_only=hash_only)
  again = TS.encode(metric, '/', hash_only=hash_only)
  tagged = any(c == ';' for c in metric)
  cover('tagged' if tagged else 'plain')
  if enc != again:
    return False                                   # deterministic
  if tagged and not enc.startswith('_tagged/a1b/2c3/'):
    return False
  return _confined(enc)


def replay_encode(metric, hash_only):
  enc = cutil.TaggedSeries.encode(metric, '/', hash_only=hash_only)
  import os
  full = os.path.normpath(os.path.join('/data/dir', enc + '.wsp'))
  return full.startswith('/data/dir/') and enc == cutil.TaggedSeries.encode(metric, '/', hash_only=hash_only)


def _db(data_dir, hash_names):
  db = object.__new__(DB.WhisperDatabase)
  db.data_dir = data_dir
  db.tag_hash_filenames = hash_names
  return db


def C14_whisper_path(metric: str, di: int, hash_names: bool) -> bool:
  """
  pre: len(metric) <= 3
  pre: 0 <= di < len(DATA_DIRS)
  post: __return__
  """
  data_dir = pick(DATA_DIRS, di)
  db = _db(data_dir, hash_names)
  path = db.getFilesystemPath(metric)
  cover('mapped')
  if path != db.getFilesystemPath(metric):
    return False
  prefix = data_dir if data_dir.endswith('/') else data_dir + '/'
  if not path.startswith(prefix) or not path.endswith('.wsp'):
    return False
  rest = path[len(prefix):]
  return _confined(rest)


def replay_whisper_path(metric, di, hash_names):
  import os
  had = sys.modules.get('whisper')
  sys.modules['whisper'] = _stub
  try:
    import importlib
    mod = importlib.reload(real_database) if not hasattr(real_database, 'WhisperDatabase') else real_database
  finally:
    if had is None:
      sys.modules.pop('whisper', None)
  db = object.__new__(mod.WhisperDatabase)
  db.data_dir, db.tag_hash_filenames = DATA_DIRS[di], hash_names
  path = os.path.normpath(db.getFilesystemPath(metric))
  root = os.path.normpath(DATA_DIRS[di])
  return path.startswith(root + os.sep) and path.endswith('.wsp')


class _FS(object):
  """Records every path the database stats or renames (os / os.path stand-in for WhisperDatabase.exists)."""

  def __init__(self, answers):
    self.answers, self.touched, self.n = answers, [], 0

  def exists(self, path):
    self.touched.append(path)
    ok = ((self.answers >> self.n) & 1) == 1
    self.n += 1
    return ok

  def rename(self, src, dst):
    self.touched.append(src)
    self.touched.append(dst)


def _exists_paths(dbmod, metric, di, hash_names, answers):
  data_dir = pick(DATA_DIRS, di)
  db = object.__new__(dbmod.WhisperDatabase)
  db.data_dir, db.tag_hash_filenames = data_dir, hash_names
  fs = _FS(answers)
  old_exists, old_os = dbmod.exists, dbmod.os
  dbmod.exists = fs.exists
  dbmod.os = type('O', (), {'rename': staticmethod(fs.rename), 'makedirs': staticmethod(lambda p: fs.touched.append(p))})
  try:
    db.exists(metric)
  finally:
    dbmod.exists, dbmod.os = old_exists, old_os
  cover('stated')
  prefix = data_dir if data_dir.endswith('/') else data_dir + '/'
  for p in fs.touched:
    if not p.startswith(prefix) or not _confined(p[len(prefix):]):
      raise AssertionError('exists(%r) touched %r outside %r' % (metric, p, data_dir))
  return True


def C14_exists_paths(metric: str, di: int, hash_names: bool, answers: int) -> bool:
  """
  pre: len(metric) <= 3
  pre: 0 <= di < len(DATA_DIRS)
  pre: 0 <= answers <= 3
  post: __return__
  """
  return _exists_paths(DB, metric, di, hash_names, answers)


def _deep_names():
  out = []
  for k in range(0, 9):
    up = '/..' * k
    out += ['a;b=x' + up + '/y', 'a' + up + '/y;b=c', up.lstrip('/') + '/z', 'a;b=' + '../' * k + 'w', '/' * k + 'q;t=v', 'n' + '..' * k + 'm',
            '.' * k + 'p', ';' + up, 'a.b;c=d' + '.' * k]
  return out


DEEP = _deep_names()


def C14_deep(ni: int, di: int, hash_names: bool) -> bool:
  """
  pre: 0 <= ni < len(DEEP)
  pre: 0 <= di < len(DATA_DIRS)
  post: __return__
  """
  # long crafted names with up to 8 '/..' segments, leading separators and dot runs, tagged and untagged:
  # beyond the length the symbolic harnesses reach; real os.path.normpath decides
  import os
  name, data_dir = pick(DEEP, ni), pick(DATA_DIRS, di)
  db = _db(data_dir, hash_names)
  cover('mapped')
  root = os.path.normpath(data_dir)
  for p in (db.getFilesystemPath(name), db._getFilesystemPath(name, False), db._getFilesystemPath(name, True)):
    if not os.path.normpath(p).startswith(root + os.sep):
      raise AssertionError('%r maps to %r outside %r' % (name, p, data_dir))
  return True


# ---- determinism across daemon restarts ------------------------------------------------------------------
STABLE = ['a.b.c', 'servers.' + 'x' * 300 + '.cpu', 'y' * 252, 'z' * 251 + '.q', 'é.ü.' + 'w' * 260, 'cpu;host=' + 'h' * 300, 'm;a=1;b=2',
          '/abs.' + 'k' * 255, 'a..b', 'n' * 1000]


def _other_process(seed):
  """The same mapping computed by another interpreter start (another string-hash seed), from the same source."""
  import json
  import os
  import subprocess
  from vp_lib.api import REPO
  code = ('import json, sys\n'
          'from carbon.util import TaggedSeries\n'
          'names = json.loads(sys.stdin.read())\n'
          'print(json.dumps([[TaggedSeries.encode(n, hash_only=False), TaggedSeries.encode(n, hash_only=True), TaggedSeries.encode(n, sep=\'.\')] for n in names]))\n')
  env = dict(os.environ, PYTHONHASHSEED=str(seed), PYTHONPATH=os.path.join(REPO, 'lib'))
  out = subprocess.run([sys.executable, '-c', code], input=json.dumps(STABLE), capture_output=True, text=True, env=env, timeout=120)
  if out.returncode != 0:
    raise LookupError('cannot compute the reference mapping in a second interpreter: %s' % out.stderr[-300:])
  return json.loads(out.stdout)


_RESTART_1 = _other_process(1)
_RESTART_2 = _other_process(2)


def C14_stable(ni: int, form: int) -> bool:
  """
  pre: 0 <= ni < len(STABLE)
  pre: 0 <= form <= 2
  post: __return__
  """
  # deterministic mapping: the path computed now equals the one another daemon start computes (else a file
  # created before a restart is not found after it)
  ni, form = int(ni), int(form)
  name = STABLE[ni]
  if form == 0:
    here = cutil.TaggedSeries.encode(name, hash_only=False)
  elif form == 1:
    here = cutil.TaggedSeries.encode(name, hash_only=True)
  else:
    here = cutil.TaggedSeries.encode(name, sep='.')
  cover('compared')
  if here != _RESTART_1[ni][form] or here != _RESTART_2[ni][form]:
    raise AssertionError('mapping of a %d-character name differs between interpreter starts' % len(name))
  return here == cutil.TaggedSeries.encode(name, hash_only=(form == 1)) if form < 2 else True


def _segments_ok(name):
  """Untagged name made of non-empty dot-separated segments without path separators."""
  if len(name) == 0 or name.startswith('.') or name.endswith('.'):
    return False
  prev_dot = False
  for c in name:
    if c == '/' or c == ';':
      return False
    if c == '.' and prev_dot:
      return False
    prev_dot = (c == '.')
  return True


def C14_injective(a: str, b: str, hash_only: bool) -> bool:
  """
  pre: len(a) <= 3 and len(b) <= 3
  pre: a != b
  pre: _segments_ok(a) and _segments_ok(b)
  post: __return__
  """
  cover('compared')
  return TS.encode(a, '/', hash_only=hash_only) != TS.encode(b, '/', hash_only=hash_only)


def replay_injective(a, b, hash_only):
  return cutil.TaggedSeries.encode(a, '/', hash_only=hash_only) != cutil.TaggedSeries.encode(b, '/', hash_only=hash_only)


# distinct names that a "normalising" encoder would merge: unicode composition, case, width, whitespace
LOOKALIKES = ['café.hits', 'café.hits', 'temp.K', 'temp.K', 'temp.k', 'res.Ω', 'res.Ω',
              'a.b', 'a.B', 'A.b', 'a_b', 'a-b', 'a.b ', ' a.b', 'a.ｂ', '가.x', '가.x', 'a..b'.replace('..', '.c.'),
              'a.b.c', 'a.bc', 'ab.c']


def C14_lookalikes(i: int, j: int, hash_only: bool) -> bool:
  """
  pre: 0 <= i < j < len(LOOKALIKES)
  post: __return__
  """
  a, b = pick(LOOKALIKES, i), pick(LOOKALIKES, j)
  cover('compared')
  return (cutil.TaggedSeries.encode(a, '/', hash_only=hash_only) != cutil.TaggedSeries.encode(b, '/', hash_only=hash_only)
          and cutil.TaggedSeries.encode(a, '.', hash_only=hash_only) != cutil.TaggedSeries.encode(b, '.', hash_only=hash_only))


_ASSUME = ['sha256(...).hexdigest() replaced by a stub returning 64 lowercase hex characters (hashing realises the symbolic name)',
           'lexical confinement: the relative path is not absolute and contains no "." character, hence no "." or ".." segment; '
           'filesystem semantics (symlinks) and real file creation through whisper are outside (library absent)',
           'TaggedSeries executed as a message-stripped shadow regenerated from the current source; replay on the real class with os.path.normpath']

HARNESSES = [
  H('C14_encode', quick=dict(timeout=420, shards=[('len%d' % n, 'len(metric) == %d' % n) for n in range(4)] + [('len4_h%d' % h, 'len(metric) == 4 and hash_only == %s' % bool(h)) for h in (0, 1)]),
    thorough=dict(timeout=1500, shards=[('len%d' % n, 'len(metric) == %d' % n) for n in range(5)] + [('len5_h%d' % h, 'len(metric) == 5 and hash_only == %s' % bool(h)) for h in (0, 1)], extra_pre=[]),
    covers=['tagged', 'plain'], replay='replay_encode', twin_pre=['len(metric) <= 2'], encodes=['carbon.util:TaggedSeries.encode'], assumptions=_ASSUME),
  H('C14_whisper_path', quick=dict(timeout=280, shards=[('d%d' % d, 'di == %d' % d) for d in range(len(DATA_DIRS))]),
    covers=['mapped'], replay='replay_whisper_path',
    encodes=['carbon.database:WhisperDatabase.getFilesystemPath', 'carbon.database:WhisperDatabase._getFilesystemPath', 'carbon.util:TaggedSeries.encode'],
    assumptions=_ASSUME + ['carbon.database re-executed from its current source with a stub `whisper` module so that the real WhisperDatabase class body exists; '
                           'CeresDatabase: not definable (library absent)']),
  H('C14_exists_paths', quick=dict(timeout=280, shards=[('d%d' % d, 'di == %d' % d) for d in range(len(DATA_DIRS))], extra_pre=['len(metric) <= 2']),
    thorough=dict(timeout=900, shards=[('d%d' % d, 'di == %d' % d) for d in range(len(DATA_DIRS))]), covers=['stated'],
    encodes=['carbon.database:WhisperDatabase.exists (incl. the TAG_HASH_FILENAMES migration rename)', 'carbon.database:WhisperDatabase._getFilesystemPath'],
    assumptions=_ASSUME + ['os.path.exists / os.rename replaced by a recorder answering per symbolic bits: every path stat\'ed or renamed must be confined']),
  H('C14_deep', quick=dict(timeout=280), covers=['mapped'],
    encodes=['carbon.database:WhisperDatabase._getFilesystemPath', 'carbon.util:TaggedSeries.encode'],
    assumptions=['%d crafted long names (symbolic index), real sha256 replaced by the stub, os.path.normpath decides' % len(DEEP)]),
  H('C14_stable', quick=dict(timeout=120), covers=['compared'],
    encodes=['carbon.util:TaggedSeries.encode'],
    assumptions=['%d names incl. segments of 251 / 252 / 300 / 1000 characters, tagged and untagged (symbolic index); the reference values are computed at start-up by two other '
                 'interpreter processes with different string-hash seeds from the same source tree' % len(STABLE)]),
  H('C14_injective', quick=dict(timeout=280, extra_pre=['len(a) <= 2 and len(b) <= 3']), thorough=dict(timeout=1500),
    covers=['compared'], replay='replay_injective', encodes=['carbon.util:TaggedSeries.encode'], assumptions=_ASSUME),
  H('C14_lookalikes', quick=dict(timeout=200), covers=['compared'], encodes=['carbon.util:TaggedSeries.encode'],
    assumptions=['pairs of distinct names from a table of %d spellings that normalising encoders would merge (real class, real sha256)' % len(LOOKALIKES)]),
]
