"""C03 — the writer persists each drained datapoint exactly once or accounts for it."""
from vp_lib.api import H, cover
from vp_lib import cachelab as K
from vp_lib import writerlab as W

# sub-second timestamps (pickle senders transmit floats): two of them share a whole second
K.STAMPS = [10.75, 10.25, 30]


def _pass(cmod, strat, b0, b1, b2, b3, pv, ea, eb, faults, cb_mode, cb_peek, cb_drain, ub):
  cache = K.build(cmod, strat, [b0, b1, b2, b3], [pv, pv + 1, pv + 2, pv + 3], 0)
  stored = K.contents(cache)
  db = W.RecordingDB(preexisting=[m for m, e in (('a', ea), ('b', eb)) if e], faults=faults, nfault_bits=4)
  real_drain = cache.drain_metric

  def drain():
    m, d = real_drain()
    db.calls.append(('drain', m, list(d), True, None))     # marker in the same ordered log as the backend calls
    return m, d
  cache.drain_metric = drain
  cbucket = W.BucketStub(cb_peek, cb_drain) if cb_mode else None
  ubucket = W.BucketStub(0, 0) if ub else None
  log = W.install(cache, db, cbucket, ubucket)
  escaped = None
  try:
    try:
      W.writer.writeCachedDataPoints()
    except Exception as e:          # writeForever() catches and logs whatever escapes a pass
      escaped = e
  finally:
    W.restore()
  # ---- oracle -------------------------------------------------------------------------------
  calls = list(db.calls)
  exp_dropped = exp_errors = exp_committed = 0
  handed_out = {}
  for idx, ev in enumerate(calls):
    if ev[0] != 'drain' or ev[1] is None:
      continue
    metric, batch = ev[1], ev[2]
    if not batch:
      raise AssertionError('drained a metric without datapoints')
    for (ts, v) in batch:
      if (metric, ts) in handed_out:
        raise AssertionError('datapoint drained twice')
      handed_out[(metric, ts)] = v
    mine = []
    for later in calls[idx + 1:]:
      if later[0] == 'drain':
        break
      mine.append(later)
    if [r for r in mine[2:] if r[0] == 'write'] or (mine[:1] and mine[0][0] == 'write'):
      raise AssertionError('write() outside the exists() gate of its batch')
    if not mine or mine[0][0] != 'exists' or mine[0][1] != metric:
      raise AssertionError('drained batch of %r not followed by its exists() gate: %r' % (metric, mine[:1]))
    gate = mine[0]
    wr = [r for r in mine[1:2] if r[0] == 'write']
    if not gate[3]:                       # exists() itself raised: the exception leaves the pass and is logged
      if escaped is None or wr:
        raise AssertionError('failing exists() neither escaped nor stopped the write')
      cover('exists_failed')
      continue
    if not gate[4]:                       # no file yet: counted as a dropped create, no write
      if wr:
        raise AssertionError('write() issued for %r whose file does not exist' % metric)
      exp_dropped += 1
      cover('dropped_create')
      continue
    if len(wr) != 1:
      raise AssertionError('no write() for a drained batch whose file exists')
    if wr[0][1] != metric:
      raise AssertionError('datapoints of %r written under the name %r' % (metric, wr[0][1]))
    if sorted(wr[0][2]) != sorted(dict(batch).items()):
      raise AssertionError('write() does not carry exactly the drained datapoints')
    if ubucket is not None and not [x for x in ubucket.log if x[0] == 'drain' and x[2] and x[1] == 1]:
      raise AssertionError('write() without acquiring an update token')
    if wr[0][3]:
      exp_committed += len(wr[0][2])
      cover('written')
    else:
      exp_errors += 1
      cover('write_failed')
  # creates: each create call is for a metric still cached, not existing, after a granted token
  ngrants = 0
  if cbucket is not None:
    ngrants = len([x for x in cbucket.log if x[0] == 'drain' and x[3]])
  creates = [c for c in calls if c[0] == 'create']
  if cbucket is not None and len(creates) > ngrants:
    raise AssertionError('%d creates with %d create tokens granted' % (len(creates), ngrants))
  for c in creates:
    if c[4]:
      raise AssertionError('create() for a metric whose file exists')
    if not c[3]:
      exp_errors += 1
      cover('create_failed')
  if escaped is not None and not isinstance(escaped, W.BackendFault):
    raise AssertionError('pass raised %r' % (escaped,))
  if (W.stats('droppedCreates'), W.stats('errors'), W.stats('committedPoints')) != (exp_dropped, exp_errors, exp_committed):
    raise AssertionError('counters (dropped, errors, committed) = %r, expected %r' % (
      (W.stats('droppedCreates'), W.stats('errors'), W.stats('committedPoints')), (exp_dropped, exp_errors, exp_committed)))
  if W.stats('creates') != len([c for c in creates if c[3]]):
    raise AssertionError('creates counter wrong')
  # nothing silently discarded: every stored datapoint was handed out (and accounted above) or is still cached
  left = K.contents(cache)
  for m, d in stored.items():
    for ts, v in d.items():
      in_cache = m in left and ts in left[m]
      if ((m, ts) in handed_out) == in_cache:
        raise AssertionError('datapoint %r@%r lost or duplicated' % (m, ts))
  if escaped is None and K.held(cache) != 0:
    raise AssertionError('pass ended normally with data left in the cache')
  return True


def C03_pass(strat: int, b0: bool, b1: bool, b2: bool, b3: bool, pv: int, ea: bool, eb: bool, faults: int,
             cb_mode: bool, cb_peek: int, cb_drain: int, ub: bool) -> bool:
  """
  pre: 0 <= strat <= 6
  pre: 0 <= faults < 16
  pre: 0 <= cb_peek <= 3 and 0 <= cb_drain <= 3
  pre: cb_mode or (cb_peek == 0 and cb_drain == 0)
  post: __return__
  """
  return _pass(K.SHADOW, strat, b0, b1, b2, b3, pv, ea, eb, faults, cb_mode, cb_peek, cb_drain, ub)


def replay_pass(strat, b0, b1, b2, b3, pv, ea, eb, faults, cb_mode, cb_peek, cb_drain, ub):
  return _pass(K.real_cache, strat, b0, b1, b2, b3, pv, ea, eb, faults, cb_mode, cb_peek, cb_drain, ub)


def _forever_fault(cmod, strat, which, which2):
  """writeForever: whatever escapes a pass is logged (every time), the loop backs off and goes on; every
  metric is written, or its failed write is counted, or the exception that interrupted its batch is logged."""
  cache = K.build(cmod, strat, [True, False, True, False], [1, 2, 3, 4], 0)
  db = W.RecordingDB(preexisting=['a', 'b'], faults=(1 << which) | (1 << which2), nfault_bits=6)
  real_drain = cache.drain_metric

  def drain():
    m, d = real_drain()
    db.calls.append(('drain', m, list(d), True, None))
    return m, d
  cache.drain_metric = drain
  reactor = W.StopReactor()
  tm = W.FakeTimeModule(on_sleep=lambda d: reactor.stop() if len(tm.sleeps) >= 3 else None)
  log = W.install(cache, db, None, None, reactor=reactor, time_mod=tm)
  try:
    W.writer.writeForever()
  finally:
    W.restore()
  cover('looped')
  calls = db.calls
  failed = [c for c in calls if c[0] != 'drain' and not c[3]]
  if len(failed) == 0:
    return True                      # the fault bits fell beyond the calls this workload makes
  if len(failed) == 2:
    cover('two_faults')
  escaped = [c for c in failed if c[0] == 'exists']     # create/write faults are caught inside the pass and counted
  if log.errs != len(failed):
    raise AssertionError('%d backend failures, %d reported' % (len(failed), log.errs))
  if failed[0][0] == 'exists' and tm.sleeps[0] != 0.1:
    raise AssertionError('no back-off after an escaping exception')
  if W.stats('errors') != len(failed) - len(escaped):
    raise AssertionError('failed create()/write() not counted as an error')
  for m in ('a', 'b'):
    ok_writes = len([c for c in calls if c[0] == 'write' and c[1] == m and c[3]])
    bad_writes = len([c for c in calls if c[0] == 'write' and c[1] == m and not c[3]])
    gate_failed = 0
    for i, c in enumerate(calls):
      if c[0] == 'drain' and c[1] == m and i + 1 < len(calls) and calls[i + 1][0] == 'exists' and not calls[i + 1][3]:
        gate_failed += 1
    if ok_writes + bad_writes + gate_failed != 1:
      raise AssertionError('%r: %d writes, %d failed writes, %d interrupted batches' % (m, ok_writes, bad_writes, gate_failed))
  if K.held(cache) != 0:
    raise AssertionError('data left in the cache after the loop went on')
  return True


def C03_forever_fault(strat: int, which: int, which2: int) -> bool:
  """
  pre: 0 <= strat <= 6
  pre: 0 <= which <= which2 <= 4
  post: __return__
  """
  return _forever_fault(K.SHADOW, strat, which, which2)


def replay_forever_fault(strat, which, which2):
  return _forever_fault(K.real_cache, strat, which, which2)


_S = ([('s%d_%s_nocb' % (i, n or 'none'), 'strat == %d and not cb_mode' % i) for i, n in enumerate(K.STRATEGY_NAMES)] +
      [('s%d_%s_cb%d' % (i, n or 'none', c), 'strat == %d and cb_mode and cb_peek == %d' % (i, c)) for i, n in enumerate(K.STRATEGY_NAMES) for c in range(4)])
_SQ = [x for x in _S if 'nocb' in x[0] or x[0].startswith(('s3_', 's6_', 's0_'))]
_ASSUME = ['storage backend = in-memory recorder registered as state.database; call k (exists/create/write counted together) raises iff bit k of a symbolic 4-bit fault mask is set',
           'files pre-existing for a symbolic subset of the metrics; CREATE_BUCKET / UPDATE_BUCKET absent or a stub granting per symbolic bit script (the real TokenBucket arithmetic is C20)',
           'the REAL carbon.writer module is executed (globals reactor/time/MetricCache/log/buckets/SCHEMAS patched); the cache is the message-stripped shadow of carbon.cache (replay: real)',
           'workload: symbolic subset of 2 metrics x 2 timestamps with symbolic values; tag queue off; Whisper/Ceres I/O absent',
           'interleaving with the receiving thread: not in this harness (see DESIGN.md, race machinery)']

HARNESSES = [
  H('C03_pass', quick=dict(timeout=280, shards=_SQ, extra_pre=['faults < 8']), thorough=dict(timeout=1200, shards=_S),
    covers=['exists_failed', 'dropped_create', 'written', 'write_failed', 'create_failed'], replay='replay_pass',
    twin_pre=['strat == 3 and cb_mode'],
    encodes=['carbon.writer:writeCachedDataPoints', 'carbon.cache:_MetricCache.drain_metric', 'carbon.cache:_MetricCache.pop'],
    assumptions=_ASSUME),
  H('C03_forever_fault', quick=dict(timeout=280, shards=[('w%d' % k, 'which == %d' % k) for k in range(5)]), covers=['looped', 'two_faults'], replay='replay_forever_fault',
    encodes=['carbon.writer:writeForever', 'carbon.writer:writeCachedDataPoints'], assumptions=_ASSUME),
]


# ---- interleaving with the receiving thread ---------------------------------------------------------------------------------
from vp_lib import racelab as R  # noqa: E402
from vp_lib import sched, threadreplay  # noqa: E402

COW = sched.coroutinise(W.writer, ['writeCachedDataPoints'], ['cache'], call_targets=R.TARGETS)       # statement-level coroutine of the writer pass
if COW.__vp_missing__:
  raise LookupError('cannot instrument carbon.writer')


def _written_problem(db, pre, stores, cache):
  """No faults, files exist: every datapoint (cached before, or stored meanwhile) is in exactly one
  write call for its own metric, or still cached when the pass ends."""
  written = {}
  for c in db.calls:
    if c[0] == 'write':
      for (ts, v) in c[2]:
        written.setdefault((c[1], ts), []).append(v)
  versions = {}
  for m, d in pre.items():
    for ts, v in d.items():
      versions.setdefault((m, ts), []).append(v)
  for (m, ts, v) in stores:
    versions.setdefault((m, ts), []).append(v)
  left = K.contents(cache)
  for (m, ts), vs in versions.items():
    got = written.get((m, ts), [])
    in_cache = m in left and ts in left[m]
    if not got and not in_cache:
      return 'datapoint %s@%s taken from the cache but never passed to database.write() (nor counted)' % (m, ts)
    if len(got) > len(vs):
      return 'datapoint %s@%s written %d times' % (m, ts, len(got))
    if not in_cache and got[-1] != vs[-1]:
      return 'the most recent value of %s@%s was neither written nor kept' % (m, ts)
  for key in written:
    if key not in versions:
      return 'wrote a datapoint nobody stored: %r' % (key,)
  return None


def _race_setup(b0, b2, mi, ti, v, p1, n, p2):
  stores = [(K.METRICS[mi], K.STAMPS[ti], v)]
  plan = [('W', p1), ('R', n)] + ([('W', p2)] if p2 else [])
  return [b0, False, b2, False], stores, plan


def C03_race(strat: int, b0: bool, b2: bool, mi: int, ti: int, v: int, p1: int, n: int, p2: int) -> bool:
  """
  pre: 0 <= strat <= 6
  pre: 0 <= mi <= 2 and 0 <= ti <= 2
  pre: 0 <= p1 <= 60 and 0 <= n <= 12 and 0 <= p2 <= 10
  post: __return__
  """
  bits, stores, plan = _race_setup(b0, b2, mi, ti, v, p1, n, p2)
  R.CO.time = K.FakeTime(1000)
  R.CO.choice = lambda seq: seq[0]
  K.apply_limits(float('inf'), False)
  K.sset('MIN_TIMESTAMP_LAG', 0)
  cache = R.CO._MetricCache(K.strategy_class(R.CO, strat))
  cache.lock = sched.CoopLock()
  for i, bit in ((0, b0), (1, b2)):
    if bit:
      sched.run_to_end(cache.store(K.METRICS[i], (10, 1 + i)))
  pre = K.contents(cache)
  db = W.RecordingDB(preexisting=['a', 'b', 'c'])
  W.install(cache, db, None, None, mod=COW)

  def receiver():
    for (m, ts, val) in stores:
      yield from cache.store(m, (ts, val))
  threads = {'W': sched.Thread('W', COW.writeCachedDataPoints()), 'R': sched.Thread('R', receiver())}
  try:
    trace = sched.run_plan(threads, plan, limit=600)
  finally:
    W.restore()
  if [t for t in trace if t[0] == 'R'] and [t for t in trace if t[0] == 'W']:
    cover('interleaved')
  for t in threads.values():
    if t.error is not None:
      if isinstance(t.error, ValueError) and K.STRATEGY_NAMES[strat] == 'bucketmax':
        return True                                   # known finding F5 (C17), not this property's clause
      raise AssertionError('%s thread failed: %r' % (t.name, t.error))
  problem = _written_problem(db, pre, stores, cache)
  if problem:
    raise AssertionError(problem)
  return True


def replay_race(strat, b0, b2, mi, ti, v, p1, n, p2):
  bits, stores, plan = _race_setup(b0, b2, mi, ti, v, p1, n, p2)
  # 1. statement trace from the coroutines
  R.CO.time = K.FakeTime(1000)
  R.CO.choice = lambda seq: seq[0]
  K.apply_limits(float('inf'), False)
  cache = R.CO._MetricCache(K.strategy_class(R.CO, strat))
  cache.lock = sched.CoopLock()
  for i, bit in ((0, b0), (1, b2)):
    if bit:
      sched.run_to_end(cache.store(K.METRICS[i], (10, 1 + i)))
  db = W.RecordingDB(preexisting=['a', 'b', 'c'])
  W.install(cache, db, None, None, mod=COW)

  def receiver():
    for (m, ts, val) in stores:
      yield from cache.store(m, (ts, val))
  threads = {'W': sched.Thread('W', COW.writeCachedDataPoints()), 'R': sched.Thread('R', receiver())}
  try:
    trace = sched.run_plan(threads, plan, limit=600)
  finally:
    W.restore()
  # 2. the same schedule on real threads: real carbon.writer + real carbon.cache
  K.real_cache.time = K.FakeTime(1000)
  K.real_cache.choice = lambda seq: seq[0]
  rcache = K.real_cache._MetricCache(K.strategy_class(K.real_cache, strat))
  for i, bit in ((0, b0), (1, b2)):
    if bit:
      rcache.store(K.METRICS[i], (10, 1 + i))
  pre = K.contents(rcache)
  rdb = W.RecordingDB(preexisting=['a', 'b', 'c'])
  W.install(rcache, rdb, None, None)
  try:
    results, problems = threadreplay.run_threads(
      trace, {'W': W.writer.writeCachedDataPoints, 'R': lambda: [rcache.store(m, (ts, val)) for (m, ts, val) in stores]},
      ('carbon/cache.py', 'carbon/writer.py'), R.TARGETS + ['writeCachedDataPoints'])
  finally:
    W.restore()
    import time as _t
    K.real_cache.time = _t
  errs = [v for (k, v) in results.values() if k == 'error']
  if problems and not errs:
    raise RuntimeError('schedule could not be enforced on real threads: %r' % (problems,))
  if errs:
    return isinstance(errs[0], ValueError) and K.STRATEGY_NAMES[strat] == 'bucketmax'
  return _written_problem(rdb, pre, stores, rcache) is None


_RQ3 = [('s%d_%s_m%d' % (i, K.STRATEGY_NAMES[i] or 'none', m), 'strat == %d and mi == %d' % (i, m)) for i in (0, 3) for m in (0, 2)]
_RS3 = [('s%d_%s_m%d' % (i, n or 'none', m), 'strat == %d and mi == %d' % (i, m)) for i, n in enumerate(K.STRATEGY_NAMES) for m in range(3)]
HARNESSES.append(
  H('C03_race', quick=dict(timeout=420, shards=_RQ3, extra_pre=['p2 == 0', 'ti != 1', 'b0 and not b2', 'n in (0, 2, 4, 6, 9, 12)']), thorough=dict(timeout=900, shards=_RS3, extra_pre=['p2 in (0, 4)', 'ti != 1']),
    covers=['interleaved'], replay='replay_race', twin_pre=['strat == 0 and mi == 0'],
    encodes=['carbon.writer:writeCachedDataPoints (statement-level coroutine)', 'carbon.cache:_MetricCache.store / drain_metric / pop (statement-level coroutines)'],
    assumptions=['schedules: the writer pass runs p1 statements, the receiver (one store) n statements or until blocked, [thorough: writer p2 more], then both to completion',
                 'backend without faults, files pre-existing (fault patterns: C03_pass); counterexamples replayed on real OS threads running the real carbon.writer and carbon.cache']))
