"""C20 — update and create rate limits hold over every time window (engine S: AST -> z3)."""
import random
import time as _time
from fractions import Fraction

import z3

from vp_lib.api import S, boot_carbon
from vp_lib import pysym
from vp_lib.pysym import Obj, Clock, Interp, Unsupported

boot_carbon()
import carbon.util as cutil  # noqa: E402

TB = cutil.TokenBucket
OPS = ['peek', 'drain', 'drain_blocking', 'setCapacityAndFillRate']


def _mx(a, b):
  return z3.If(a >= b, a, b) if isinstance(a, z3.ExprRef) or isinstance(b, z3.ExprRef) else max(a, b)


def _mn(a, b):
  return z3.If(a <= b, a, b) if isinstance(a, z3.ExprRef) or isinstance(b, z3.ExprRef) else min(a, b)


def phi(C, r, T, s, now):
  """Credit potential: tokens that could be granted at `now` without waiting (see DESIGN.md C20)."""
  return _mx(T, 0) + _mn(C, r * (now - s) + _mn(T, 0))


def _sym_state(tag=''):
  C, r, T, s, now, cost = z3.Reals('C%s r%s T%s s%s now%s cost%s' % ((tag,) * 6))
  return C, r, T, s, now, cost


def _inv(C, r, T, s, now, cost):
  return z3.And(r > 0, cost > 0, C >= cost, T <= C, s <= now)


def _arbitrary_bucket(C, r, T, s):
  """Bucket constructed by the real __init__(C, r) whose four state fields are then arbitrary:
  any further field __init__ derives from its arguments keeps that derived value."""
  obj = Obj(TB, {})
  Interp(Clock(s, prefix='t_ctor_')).call_method(obj, '__init__', [C, r])
  obj.attrs.update(capacity=C, fill_rate=r, _tokens=T, timestamp=s)
  return obj


def _run_op(op, C, r, T, s, now, cost, C2=None, r2=None, exact_sleep=False):
  obj = _arbitrary_bucket(C, r, T, s)
  clock = Clock(now, prefix='t_' + op + '_', exact_sleep=exact_sleep)
  it = Interp(clock)
  if op == 'peek':
    ret = it.call_method(obj, 'peek', [cost])
    granted = z3.BoolVal(False)
  elif op == 'drain':
    ret = it.call_method(obj, 'drain', [cost])
    granted = pysym.as_bool(ret)
  elif op == 'drain_blocking':
    ret = it.call_method(obj, 'drain', [cost], kwargs={'blocking': True})
    granted = pysym.as_bool(ret)
  else:
    ret = it.call_method(obj, 'setCapacityAndFillRate', [C2, r2])
    granted = z3.BoolVal(False)
  a = obj.attrs
  return dict(C=a['capacity'], r=a['fill_rate'], T=a['_tokens'], s=a['timestamp'], now=clock.now, ret=ret,
              granted=granted, clock=clock)


def _lemma(results, name, assumptions, goal, witness_of=None, timeout_ms=60000):
  verdict, model, dt = pysym.check(z3.Solver, assumptions, goal, timeout_ms)
  rec = dict(name=name, verdict=verdict, solver_time_s=round(dt, 4), queries=1, model=model,
             detail='' if verdict == 'proved' else 'goal not entailed' if verdict == 'refuted' else 'solver answered unknown')
  if verdict == 'proved':
    # vacuity guard: the assumptions (and the interesting antecedent) must be satisfiable
    ok, w = pysym.satisfiable(list(assumptions) + ([witness_of] if witness_of is not None else []))
    rec['queries'] += 1
    if not ok:
      rec['verdict'] = 'error'
      rec['detail'] = 'vacuous: assumptions%s unsatisfiable' % (' + antecedent' if witness_of is not None else '')
    else:
      rec['witness'] = dict(list(w.items())[:8])
  results.append(rec)
  return rec


def lemmas(tier):
  results = []
  try:
    _validate_translation(results, 200 if tier == 'quick' else 2000)
    C, r, T, s, now, cost = _sym_state()
    inv = _inv(C, r, T, s, now, cost)
    # state-only lemmas
    _lemma(results, 'L4 potential bounded: Inv => 0 - |T| <= phi <= 2C', [inv], phi(C, r, T, s, now) <= 2 * C)
    nb = z3.Real('now_b')
    _lemma(results, 'L0 idle time adds at most r*dt of credit', [inv, nb >= now],
           phi(C, r, T, s, nb) <= phi(C, r, T, s, now) + r * (nb - now))
    # __init__
    obj = Obj(TB, {})
    clk = Clock(now, prefix='t_init_')
    Interp(clk).call_method(obj, '__init__', [C, r])
    a = obj.attrs
    _lemma(results, 'L1 __init__ establishes Inv with a full bucket', [r > 0, cost > 0, C >= cost] + clk.constraints,
           z3.And(_inv(a['capacity'], a['fill_rate'], a['_tokens'], a['timestamp'], clk.now, cost), a['_tokens'] == a['capacity']))
    for op in OPS:
      C2, r2 = z3.Reals('C2 r2')
      extra = [C2 >= cost, r2 > 0] if op == 'setCapacityAndFillRate' else []
      post = _run_op(op, C, r, T, s, now, cost, C2, r2)
      asm = [inv] + extra + post['clock'].constraints
      g = post['granted']
      _lemma(results, 'L1 %s preserves Inv' % op, asm,
             _inv(post['C'], post['r'], post['T'], post['s'], post['now'], cost))
      if op != 'setCapacityAndFillRate':
        _lemma(results, 'L2 %s: credit grows by at most r*dt and shrinks by cost on a grant' % op, asm,
               phi(post['C'], post['r'], post['T'], post['s'], post['now'])
               <= phi(C, r, T, s, now) + r * (post['now'] - now) - z3.If(g, cost, 0),
               witness_of=g if op != 'peek' else None)
        _lemma(results, 'L3 %s: after a grant the potential is non-negative' % op, asm,
               z3.Implies(g, phi(post['C'], post['r'], post['T'], post['s'], post['now']) >= 0),
               witness_of=g if op != 'peek' else None)
        if op == 'drain':
          _lemma(results, 'L2b drain (non-blocking): a refusal leaves the token count and never sleeps', asm,
                 z3.Implies(z3.Not(g), post['T'] <= _mx(T, post['T'])))
      else:
        _lemma(results, 'L6 limit change grants no more than the new burst: T\' <= C\' and phi\' <= 2C\'', asm,
               z3.And(post['T'] <= post['C'], phi(post['C'], post['r'], post['T'], post['s'], post['now']) <= 2 * post['C']))
      if op == 'drain_blocking':
        clockrec = post['clock']
        goals = [z3.Implies(guard, d <= (0 - post['T']) / r) for guard, d in clockrec.sleeps]
        any_sleep = z3.Or(*[z3.And(guard, d > 0) for guard, d in clockrec.sleeps]) if clockrec.sleeps else None
        if not clockrec.sleeps:
          results.append(dict(name='L5 blocking wait bound', verdict='error', detail='no sleep() call found in drain()', queries=0))
        else:
          _lemma(results, 'L5 blocking drain sleeps no longer than deficit / rate', asm, z3.And(*goals), witness_of=any_sleep)
          _lemma(results, 'L5b blocking drain always grants', asm, g)
    _kstep(results, 3 if tier == 'quick' else 4, 60000 if tier == 'quick' else 300000, False)
    _kstep(results, 2 if tier == 'quick' else 3, 60000 if tier == 'quick' else 300000, True)
  except Unsupported as e:
    results.append(dict(name='translation', verdict='unknown', detail='unsupported construct: %s' % e, queries=0))
  return results


def _kstep(results, k, timeout_ms, with_change):
  """Bounded direct statement: fresh bucket, [optionally a limit change at a symbolic time], then k
  symbolic calls (non-blocking / blocking) at symbolic non-decreasing times; for every window between
  two grants: grants*cost <= r*w + 2C (current limits), and every blocking wait <= deficit / rate."""
  C, r, cost, t0 = z3.Reals('kC kr kcost kt0')
  obj = Obj(TB, {})
  clock = Clock(t0, prefix='k_', exact_sleep=False)
  it = Interp(clock)
  it.call_method(obj, '__init__', [C, r])
  asm = [r > 0, cost > 0, C >= cost]
  if with_change:
    # drain the bucket a little first so that the change happens in an arbitrary reachable state
    pre_gap, C2, r2 = z3.Reals('kpregap kC2 kr2')
    pre_blocking = z3.Bool('kpreblocking')
    asm += [pre_gap >= 0, C2 >= cost, r2 > 0]
    it.call_method(obj, 'drain', [cost], kwargs={'blocking': pre_blocking})
    clock.now = clock.now + pre_gap
    it.call_method(obj, 'setCapacityAndFillRate', [C2, r2])
    C, r = C2, r2
  grants, times, waits = [], [], []
  for i in range(k):
    gap = z3.Real('kgap%d' % i)
    blocking = z3.Bool('kblocking%d' % i)
    asm.append(gap >= 0)
    clock.now = clock.now + gap
    nsleeps = len(clock.sleeps)
    ret = it.call_method(obj, 'drain', [cost], kwargs={'blocking': blocking})
    grants.append(pysym.as_bool(ret))
    times.append(clock.now)
    for guard, d in clock.sleeps[nsleeps:]:
      waits.append(z3.Implies(guard, d <= (0 - obj.attrs['_tokens']) / r))
  asm += clock.constraints
  bad = []
  for i in range(k):
    for j in range(i, k):
      n = z3.Sum([z3.If(grants[m], cost, 0) for m in range(i, j + 1)])
      bad.append(z3.And(grants[i], grants[j], n > r * (times[j] - times[i]) + 2 * C))
  _lemma(results, 'K%s%d every window between two of %d calls %s' % ('S' if with_change else '', k, k,
                                                                      'after a limit change' if with_change else 'from a fresh bucket'),
         asm, z3.And(z3.Not(z3.Or(*bad)), *waits), witness_of=z3.And(*grants), timeout_ms=timeout_ms)


# ---- translation validation: real TokenBucket vs the z3 terms on concrete inputs ---------------------
class _Script(object):
  def __init__(self, readings):
    self.readings = list(readings)
    self.i = 0
    self.slept = []
    self.now = None

  def time(self):
    v = self.readings[min(self.i, len(self.readings) - 1)]
    self.i += 1
    if self.now is not None and v < self.now:
      v = self.now
    self.now = v
    return v

  def sleep(self, d):
    self.slept.append(d)
    if d > 0:
      self.now = self.now + d


def _real_run(op, C, r, T, s, cost, readings, C2=None, r2=None):
  sc = _Script(readings)
  old = cutil.time, cutil.sleep
  cutil.time, cutil.sleep = sc.time, sc.sleep
  try:
    cutil.time = lambda: s
    b = TB(C, r)                       # real constructor, then arbitrary values for the four state fields
    cutil.time = sc.time
    b.capacity, b.fill_rate, b._tokens, b.timestamp = C, r, T, s
    if op == 'peek':
      ret = b.peek(cost)
    elif op == 'drain':
      ret = b.drain(cost)
    elif op == 'drain_blocking':
      ret = b.drain(cost, blocking=True)
    else:
      ret = b.setCapacityAndFillRate(C2, r2)
  finally:
    cutil.time, cutil.sleep = old
  return b, ret, sc


def _validate_translation(results, n):
  rnd = random.Random(int(__import__('os').environ.get('VERIF_SEED', '0') or 0))
  t0 = _time.perf_counter()
  checked = 0
  for i in range(n):
    op = OPS[i % len(OPS)]
    q = lambda lo, hi: rnd.randint(lo * 8, hi * 8) / 8.0      # dyadic rationals: float arithmetic stays exact
    Cv, rv, cv = q(1, 40), rnd.choice([0.125, 0.25, 0.5, 1.0, 2.0, 4.0, 8.0]), q(1, 2)
    if Cv < cv:
      Cv = cv
    Tv, sv = q(-20, 40), q(0, 100)
    if Tv > Cv:
      Tv = Cv
    nowv = sv + q(0, 50)
    readings = [nowv + q(0, 30), 0]
    readings[1] = readings[0] + q(0, 30)
    C2v, r2v = q(1, 40), rnd.choice([0.5, 1.0, 2.0, 16.0])
    b, ret, sc = _real_run(op, Cv, rv, Tv, sv, cv, readings, C2v, r2v)
    C, r, T, s, now, cost = _sym_state('v')
    C2, r2 = z3.Reals('C2v r2v')
    post = _run_op(op, C, r, T, s, now, cost, C2, r2, exact_sleep=True)
    sol = z3.Solver()
    sol.add(C == Cv, r == rv, T == Tv, s == sv, now == nowv, cost == cv, C2 == C2v, r2 == r2v)
    for (guard, t), val in zip(post['clock'].readings, readings):
      sol.add(t == val)
    for c in post['clock'].constraints:
      sol.add(c)
    if str(sol.check()) != 'sat':
      raise AssertionError('translation validation: concrete input unsatisfiable for %s' % op)
    m = sol.model()

    def val(term):
      v = m.eval(pysym.to_real(term) if not (isinstance(term, z3.ExprRef) and term.sort() == z3.BoolSort()) else term,
                 model_completion=True)
      if z3.is_true(v) or z3.is_false(v):
        return bool(z3.is_true(v))
      return float(Fraction(v.numerator_as_long(), v.denominator_as_long()))
    got = (val(post['C']), val(post['r']), val(post['T']), val(post['s']))
    want = (b.capacity, b.fill_rate, b._tokens, b.timestamp)
    if got != want:
      raise AssertionError('translation validation: %s state %r != real %r on %r' % (op, got, want, (Cv, rv, Tv, sv, cv, nowv, readings)))
    if op != 'setCapacityAndFillRate' and val(post['ret']) != bool(ret):
      raise AssertionError('translation validation: %s return value differs' % op)
    checked += 1
  results.append(dict(name='TV translator agrees with the real TokenBucket on %d seeded concrete runs' % checked,
                      verdict='proved', solver_time_s=round(_time.perf_counter() - t0, 3), queries=checked,
                      witness={'runs': checked}))


# ---- replay of an SMT model on the real class --------------------------------------------------------
def _f(x):
  x = str(x).rstrip('?')
  return float(Fraction(x)) if '/' in x or x.replace('-', '').replace('.', '').isdigit() else float(x)


def replay(info):
  """Run the real TokenBucket on the model's values and re-check the lemma's inequality in floats."""
  name, m = info['lemma'], info['model'] or {}
  g = lambda k, d=0.0: _f(m[k]) if k in m else d
  C, r, T, s, now, cost = g('C'), g('r'), g('T'), g('s'), g('now'), g('cost')
  op = [o for o in sorted(OPS, key=len, reverse=True) if (' ' + o + ' ') in (' ' + name.replace(':', ' ') + ' ')
        or name.split()[1:2] == [o]]
  if name.startswith('K'):
    return _replay_kstep(name, m)
  if not op:
    return False
  op = 'drain_blocking' if 'drain_blocking' in name else op[0]
  readings = sorted([_f(v) for k, v in m.items() if k.startswith('t_' + op + '_') and not k.endswith('_wake')]) or [now]
  readings = [max(x, now) for x in readings] + [max(readings[-1], now)]
  b, ret, sc = _real_run(op, C, r, T, s, cost, readings, g('C2', 1.0), g('r2', 1.0))
  now1 = sc.now if sc.now is not None else now
  eps = 1e-9
  before, after = phi(C, r, T, s, now), phi(b.capacity, b.fill_rate, b._tokens, b.timestamp, now1)
  granted = bool(ret) and op != 'peek'
  if name.startswith('L1'):
    return not (b.fill_rate > 0 and b.capacity >= cost - eps and b._tokens <= b.capacity + eps and b.timestamp <= now1 + eps)
  if name.startswith('L2b'):
    return (not granted) and (b._tokens > max(T, b._tokens) + eps or bool(sc.slept))
  if name.startswith('L2'):
    return after > before + r * (now1 - now) - (cost if granted else 0) + eps
  if name.startswith('L3'):
    return granted and after < -eps
  if name.startswith('L5b'):
    return not ret
  if name.startswith('L5'):
    return any(d > (0 - b._tokens) / r + eps for d in sc.slept)
  if name.startswith('L6'):
    return b._tokens > b.capacity + eps or after > 2 * b.capacity + eps
  return False


def _replay_kstep(name, m):
  with_change = name.startswith('KS')
  k = int(name[2 if with_change else 1:name.index(' ')])
  C, r, cost, t = _f(m['kC']), _f(m['kr']), _f(m['kcost']), _f(m.get('kt0', '0'))
  clock = {'now': t}
  old = cutil.time, cutil.sleep
  cutil.time = lambda: clock['now']

  def sl(d):
    if d > 0:
      clock['now'] += d
  cutil.sleep = sl
  try:
    b = TB(C, r)
    grants = []
    waits_bad = []
    if with_change:
      b.drain(cost, blocking=str(m.get('kpreblocking', 'False')) == 'True')
      clock['now'] += max(0.0, _f(m.get('kpregap', '0')))
      C, r = _f(m['kC2']), _f(m['kr2'])
      b.setCapacityAndFillRate(C, r)

    def sl(d):          # noqa: F811  (also checks the wait bound against the bucket's deficit)
      if d > 0:
        waits_bad.append((d, b))
        clock['now'] += d
    cutil.sleep = sl
    for i in range(k):
      clock['now'] += max(0.0, _f(m.get('kgap%d' % i, '0')))
      blocking = str(m.get('kblocking%d' % i, 'False')) == 'True'
      before = len(waits_bad)
      if b.drain(cost, blocking=blocking):
        grants.append(clock['now'])
      for d, _b in waits_bad[before:]:
        if d > (0 - b._tokens) / r + 1e-9:
          return True
  finally:
    cutil.time, cutil.sleep = old
  for i in range(len(grants)):
    for j in range(i, len(grants)):
      if (j - i + 1) * cost > r * (grants[j] - grants[i]) + 2 * C + 1e-9:
        return True
  return False


HARNESSES = [
  S('C20_lemmas', lemmas, replay=replay,
    encodes=['carbon.util:TokenBucket.__init__', 'carbon.util:TokenBucket.peek', 'carbon.util:TokenBucket.drain',
             'carbon.util:TokenBucket.setCapacityAndFillRate'],
    assumptions=['floats as reals: IEEE rounding is outside the claim',
                 'clock contract: time() readings are non-decreasing; sleep(d) returns after the clock advanced by >= max(d, 0)',
                 'arbitrary state satisfying Inv: fill_rate > 0, capacity >= cost > 0, tokens <= capacity, timestamp <= now '
                 '(capacity, rate, cost, clock readings all unbounded reals)',
                 'window theorem (paper step): telescoping L0+L2 over any history gives cost*grants(t1,t2) <= phi(t1) - phi(t2+) + r*(t2-t1), '
                 'with L3 (phi >= 0 after a grant) and L4 (phi <= 2C): <= r*w + 2*burst; after a limit change the same holds with the new limits (L6)',
                 'K-step lemma: direct statement for a fresh bucket and k <= 3 (quick) / 5 (thorough) calls at arbitrary times']),
]


# ---- the writer's call sites (engine X): tokens are acquired before backend work, one per operation ------------------------
from vp_lib.api import H, cover, pick  # noqa: E402
from vp_lib import cachelab as K  # noqa: E402
from vp_lib import writerlab as W  # noqa: E402
from vp_lib.cachelab import sset  # noqa: E402
from carbon.conf import settings as _settings  # noqa: E402


def _writer_sites(cmod, strat, b0, b1, b2, b3, ea, eb, cb_peek, cb_drain, use_cb, use_ub):
  cache = K.build(cmod, strat, [b0, b1, b2, b3], [1, 2, 3, 4], 0)
  db = W.RecordingDB(preexisting=[m for m, e in (('a', ea), ('b', eb)) if e])
  order = []
  cb = W.BucketStub(cb_peek, cb_drain) if use_cb else None
  ub = W.BucketStub(0, 0) if use_ub else None
  for name, bucket in (('create', cb), ('update', ub)):
    if bucket is not None:
      real_drain, real_peek = bucket.drain, bucket.peek

      def drain(cost, blocking=False, _n=name, _d=real_drain):
        ok = _d(cost, blocking)
        order.append((_n + '_drain', cost, blocking, ok))
        return ok

      def peek(cost, _n=name, _p=real_peek):
        ok = _p(cost)
        order.append((_n + '_peek', cost, ok))
        return ok
      bucket.drain, bucket.peek = drain, peek
  db.hook = lambda kind, metric: order.append((kind, metric))
  W.install(cache, db, cb, ub)
  try:
    W.writer.writeCachedDataPoints()
  finally:
    W.restore()
  cover('ran')
  tokens = {'create': 0, 'update': 0}
  for ev in order:
    if ev[0] in ('create_drain', 'update_drain'):
      if ev[1] != 1:
        raise AssertionError('%s acquired %r tokens for one operation' % (ev[0], ev[1]))
      if ev[0] == 'update_drain' and not ev[2]:
        raise AssertionError('update token acquired without blocking')
      if ev[3]:
        tokens[ev[0].split('_')[0]] += 1
    elif ev[0] in ('create_peek', 'update_peek'):
      if ev[1] != 1:
        raise AssertionError('peek with cost %r' % (ev[1],))
    elif ev[0] == 'create' and cb is not None:
      if tokens['create'] < 1:
        raise AssertionError('database.create() without a create token')
      tokens['create'] -= 1
      cover('create_limited')
    elif ev[0] == 'write' and ub is not None:
      if tokens['update'] < 1:
        raise AssertionError('database.write() without an update token')
      tokens['update'] -= 1
      cover('write_limited')
  if tokens['create'] or tokens['update']:
    raise AssertionError('tokens acquired but not spent on the operation they were acquired for: %r' % (tokens,))
  return True


def C20_writer_sites(strat: int, b0: bool, b1: bool, b2: bool, b3: bool, ea: bool, eb: bool, cb_peek: int, cb_drain: int,
                     use_cb: bool, use_ub: bool) -> bool:
  """
  pre: 0 <= strat <= 6
  pre: 0 <= cb_peek <= 7 and 0 <= cb_drain <= 7
  pre: use_cb or (cb_peek == 0 and cb_drain == 0)
  post: __return__
  """
  return _writer_sites(K.SHADOW, strat, b0, b1, b2, b3, ea, eb, cb_peek, cb_drain, use_cb, use_ub)


def replay_writer_sites(strat, b0, b1, b2, b3, ea, eb, cb_peek, cb_drain, use_cb, use_ub):
  return _writer_sites(K.real_cache, strat, b0, b1, b2, b3, ea, eb, cb_peek, cb_drain, use_cb, use_ub)


def C20_shutdown_limits(has_setting: bool, use_cb: bool, use_ub: bool, lag: int) -> bool:
  """
  pre: lag >= 0
  post: __return__
  """
  cb = W.BucketStub(0, 0) if use_cb else None
  ub = W.BucketStub(0, 0) if use_ub else None
  cache = K.build(K.SHADOW, 0, [False] * 4, [0] * 4, 0)
  W.install(cache, W.RecordingDB(), cb, ub)
  sset('MIN_TIMESTAMP_LAG', lag)
  if has_setting:
    sset('MAX_UPDATES_PER_SECOND_ON_SHUTDOWN', 777)
  else:
    _settings.pop('MAX_UPDATES_PER_SECOND_ON_SHUTDOWN', None)
  try:
    W.writer.shutdownModifyUpdateSpeed()
    lag_after = _settings.MIN_TIMESTAMP_LAG        # read the way carbon.cache reads it (attribute, then item)
  finally:
    W.restore()
    sset('MIN_TIMESTAMP_LAG', 0)
    _settings.pop('MAX_UPDATES_PER_SECOND_ON_SHUTDOWN', None)
  cover('ran')
  want = [(777, 777)] if has_setting else []
  for b in (cb, ub):
    if b is not None and b.capacity_changes != want:
      raise AssertionError('shutdown limit change %r, expected %r' % (b.capacity_changes, want))
  return lag_after == 0


_WS = [('s%d_%s' % (i, n or 'none'), 'strat == %d' % i) for i, n in enumerate(K.STRATEGY_NAMES)]
HARNESSES += [
  H('C20_writer_sites', quick=dict(timeout=280, shards=[x for x in _WS if x[0][:2] in ('s0', 's3', 's6')], extra_pre=['cb_peek <= 3 and cb_drain <= 3']),
    thorough=dict(timeout=900, shards=_WS), covers=['ran', 'create_limited', 'write_limited'], replay='replay_writer_sites',
    twin_pre=['strat == 3 and use_cb and use_ub'],
    encodes=['carbon.writer:writeCachedDataPoints (CREATE_BUCKET.peek/drain before database.create, UPDATE_BUCKET.drain(1, blocking=True) before database.write)'],
    assumptions=['buckets = stubs granting per symbolic bit script and logging every call; ties the TokenBucket lemmas to the writer: one token, acquired first, per create / write']),
  H('C20_shutdown_limits', quick=dict(timeout=60), covers=['ran'],
    encodes=['carbon.writer:shutdownModifyUpdateSpeed'],
    assumptions=['both buckets present/absent, MAX_UPDATES_PER_SECOND_ON_SHUTDOWN set/unset, symbolic MIN_TIMESTAMP_LAG']),
]


# ---- the writer with the REAL TokenBucket objects in arbitrary fill states ---------------------------------------
import carbon.util as _cutil  # noqa: E402

FILLS = [5.0, 1.0, 0.5, 0.0, -2.0]          # tokens left in a bucket of capacity 5: full, exactly one, a fraction, empty, in debt


class _BClock(object):
  def __init__(self):
    self.now = 1000.0

  def time(self):
    return self.now

  def sleep(self, d):
    if d < 0:
      raise ValueError('sleep length must be non-negative')
    self.now += d


def C20_real_buckets(b0: bool, b2: bool, ea: bool, cfill: int, ufill: int, shutdown_first: bool) -> bool:
  """
  pre: 0 <= cfill < len(FILLS) and 0 <= ufill < len(FILLS)
  post: __return__
  """
  # whatever is left in the real buckets (in particular nothing): a configured limit stays a limit - every
  # write takes an update token through a blocking acquisition, every create takes a create token, and the
  # limit change at shutdown reaches both buckets
  clock = _BClock()
  old = (_cutil.time, _cutil.sleep)
  _cutil.time, _cutil.sleep = clock.time, clock.sleep
  calls = []
  try:
    cb, ub = _cutil.TokenBucket(5, 1), _cutil.TokenBucket(5, 1)
    cb._tokens, ub._tokens = pick(FILLS, cfill), pick(FILLS, ufill)
    for name, bucket in (('create', cb), ('update', ub)):
      def drain(cost, blocking=False, _n=name, _d=bucket.drain):
        ok = _d(cost, blocking)
        calls.append((_n + '_drain', cost, blocking, ok))
        return ok
      bucket.drain = drain
    cache = K.build(K.SHADOW, 3, [b0, False, b2, False], [1, 2, 3, 4], 0)
    db = W.RecordingDB(preexisting=(['a'] if ea else []) + ['c'])
    db.hook = lambda kind, metric: calls.append((kind, metric))
    W.install(cache, db, cb, ub)
    sset('MAX_UPDATES_PER_SECOND_ON_SHUTDOWN', 777)
    try:
      if shutdown_first:
        W.writer.shutdownModifyUpdateSpeed()
        if cb.capacity != 777.0 or ub.capacity != 777.0 or cb.fill_rate != 777.0 or ub.fill_rate != 777.0:
          raise AssertionError('limit change at shutdown did not reach a bucket holding %r / %r tokens' % (pick(FILLS, cfill), pick(FILLS, ufill)))
      W.writer.writeCachedDataPoints()
    finally:
      W.restore()
      sset('MIN_TIMESTAMP_LAG', 0)
      _settings.__dict__.pop('MIN_TIMESTAMP_LAG', None)
      _settings.pop('MAX_UPDATES_PER_SECOND_ON_SHUTDOWN', None)
  finally:
    _cutil.time, _cutil.sleep = old
  cover('ran')
  tokens = {'create': 0, 'update': 0}
  for ev in calls:
    if ev[0] in ('create_drain', 'update_drain'):
      if ev[3]:
        tokens[ev[0].split('_')[0]] += 1
      if ev[0] == 'update_drain' and not (ev[2] and ev[3]):
        raise AssertionError('update token not acquired by a blocking, granted acquisition')
    elif ev[0] == 'create':
      if tokens['create'] < 1:
        raise AssertionError('database.create() without a create token although MAX_CREATES_PER_MINUTE is configured')
      tokens['create'] -= 1
      cover('created')
    elif ev[0] == 'write':
      if tokens['update'] < 1:
        raise AssertionError('database.write() without an update token although MAX_UPDATES_PER_SECOND is configured')
      tokens['update'] -= 1
      cover('written')
  return True


HARNESSES += [
  H('C20_real_buckets', quick=dict(timeout=200), covers=['ran', 'created', 'written'],
    encodes=['carbon.writer:writeCachedDataPoints / shutdownModifyUpdateSpeed (the "is a limit configured" tests)', 'carbon.util:TokenBucket (real objects, concrete fill states)'],
    assumptions=['real TokenBucket(5, 1) objects whose remaining tokens come from a table (full, one, fraction, empty, debt; symbolic indices); carbon.util time/sleep = virtual clock; '
                 'sorted strategy, 0-2 metrics, files pre-existing or not']),
]
