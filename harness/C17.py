"""C17 — every write strategy drains consistently, completely and without starvation."""
from vp_lib.api import H, cover
from vp_lib import cachelab as L

NAMES = ['a', 'b', 'c']
BASE = {'a': 100, 'b': 200, 'c': 300}        # oldest timestamp of each metric (concrete dict keys)


def _fill(mod, strat, counts, now, lag):
  cache = L.build(mod, strat, [False] * 4, [0] * 4, 0, now=now)
  L.sset('MIN_TIMESTAMP_LAG', lag)
  for i, m in enumerate(NAMES):
    for j in range(3):
      if counts[i] > j:
        cache.store(m, (BASE[m] + j, j))
  return cache


def _nonempty(cache):
  return sorted(m for m, d in cache.items() if d)


def _drain_all(mod, strat, c0, c1, c2, rnd, refuse=False):
  cache = _fill(mod, strat, [c0, c1, c2], 10 ** 6, 0)
  mod.choice = lambda seq: seq[rnd % len(seq)]
  if refuse and cache.size > 0:
    # bounded cache that is exactly full: a datapoint for a NEW metric is refused and must leave no trace
    L.apply_limits(cache.size, False)
    cache.store('zz.new', (999, 9))
    L.apply_limits(float('inf'), False)
    cover('refused')
  expected = L.contents(cache)
  n_metrics = len(_nonempty(cache))
  seen = {}
  ok = True
  for _ in range(n_metrics):
    counts = dict((m, len(d)) for m, d in cache.items())
    metric, batch = cache.drain_metric()
    if metric is None or not batch:
      return False                        # a drain came back empty while the cache holds data
    if metric in seen:
      return False                        # handed out twice
    seen[metric] = batch
    if L.STRATEGY_NAMES[strat] in ('max', 'bucketmax') and counts[metric] != max(counts.values()):
      ok = False                          # must be a metric holding the current maximum
  cover('emptied')
  metric, batch = cache.drain_metric()    # with no new input, everything has been handed out
  if metric is not None or batch != [] or cache.size != 0 or _nonempty(cache):
    return False
  for m, d in expected.items():
    if seen.get(m) != sorted(d.items()):
      return False
  return ok and len(seen) == n_metrics


def C17_drain_all(strat: int, c0: int, c1: int, c2: int, rnd: int, refuse: bool) -> bool:
  """
  pre: 0 <= strat <= 6
  pre: 0 <= c0 <= 3 and 0 <= c1 <= 3 and 0 <= c2 <= 3
  pre: 0 <= rnd <= 5
  post: __return__
  """
  return _drain_all(L.SHADOW, strat, c0, c1, c2, rnd, refuse)


def replay_drain_all(strat, c0, c1, c2, rnd, refuse):
  return _drain_all(L.real_cache, strat, c0, c1, c2, rnd, refuse)


def _max_seq(mod, strat, c0, c1, c2, ops):
  """max / bucketmax under drains and further stores (incl. re-stores of a drained metric): every
  drain returns a metric holding the CURRENT maximum number of datapoints."""
  cache = _fill(mod, strat, [c0, c1, c2], 10 ** 6, 0)
  nxt = 50
  for op in ops:
    if op == 0:
      counts = dict((m, len(d)) for m, d in cache.items() if d)
      metric, batch = cache.drain_metric()
      if not counts:
        if metric is not None:
          return False
        continue
      cover('drained')
      if metric is None or not batch:
        raise AssertionError('nothing drained although the cache holds data')
      if counts.get(metric) != max(counts.values()) or len(batch) != counts[metric]:
        raise AssertionError('drained %r with %d datapoints while the maximum is %d' % (metric, len(batch), max(counts.values())))
    else:
      m = NAMES[op - 1]
      cache.store(m, (BASE[m] + nxt, nxt))
      nxt += 1
  return True


def C17_max_seq(strat: int, c0: int, c1: int, c2: int, o0: int, o1: int, o2: int, o3: int, n: int) -> bool:
  """
  pre: strat == 2 or strat == 6
  pre: 0 <= c0 <= 3 and 0 <= c1 <= 3 and 0 <= c2 <= 2
  pre: 0 <= o0 <= 3 and 0 <= o1 <= 3 and 0 <= o2 <= 3 and 0 <= o3 <= 3
  pre: 1 <= n <= 4
  post: __return__
  """
  return _max_seq(L.SHADOW, strat, c0, c1, c2, [o0, o1, o2, o3][:n])


def replay_max_seq(strat, c0, c1, c2, o0, o1, o2, o3, n):
  return _max_seq(L.real_cache, strat, c0, c1, c2, [o0, o1, o2, o3][:n])


def _pass_order(mod, strat, c0, c1, c2, ops):
  """ops: 0 = drain, 1..3 = store a NEW datapoint for metric a/b/c.  Oracle: a pass begins when
  the previous one is exhausted; every metric present at that moment is drained exactly once in
  the pass, and nothing else is (metrics that show up later wait for the next pass)."""
  cache = _fill(mod, strat, [c0, c1, c2], 10 ** 6, 0)
  pending = []
  nxt = 50
  for op in ops:
    if op == 0:
      if not pending:
        pending = _nonempty(cache)        # a pass begins here
        cover('pass_start')
        if not pending:
          metric, batch = cache.drain_metric()
          if metric is not None or batch:
            return False
          continue
      metric, batch = cache.drain_metric()
      if metric not in pending or not batch:
        return False                      # skipped ahead, drained twice, or came back empty
      pending.remove(metric)
    else:
      m = NAMES[op - 1]
      cache.store(m, (BASE[m] + nxt, nxt))
      nxt += 1
  return True


def C17_pass_order(strat: int, c0: int, c1: int, c2: int, o0: int, o1: int, o2: int, o3: int, o4: int, n: int) -> bool:
  """
  pre: strat == 1 or strat == 3 or strat == 4
  pre: 0 <= c0 <= 2 and 0 <= c1 <= 2 and 0 <= c2 <= 2
  pre: 0 <= o0 <= 3 and 0 <= o1 <= 3 and 0 <= o2 <= 3 and 0 <= o3 <= 3 and 0 <= o4 <= 3
  pre: 1 <= n <= 5
  post: __return__
  """
  return _pass_order(L.SHADOW, strat, c0, c1, c2, [o0, o1, o2, o3, o4][:n])


def replay_pass_order(strat, c0, c1, c2, o0, o1, o2, o3, o4, n):
  return _pass_order(L.real_cache, strat, c0, c1, c2, [o0, o1, o2, o3, o4][:n])


def _influx(mod, strat, c0, c1, c2, ra, k, nd):
  """A pass is under way (one metric drained) when the drained metric gets `ra` more datapoints and `k`
  metrics with NEW names show up; whatever the numbers, the metrics that were waiting when the pass began
  are drained before anything is drained a second time or ahead of them."""
  cache = _fill(mod, strat, [c0, c1, c2], 10 ** 6, 0)
  pending = _nonempty(cache)
  if len(pending) < 2:
    return True
  metric, batch = cache.drain_metric()
  if metric not in pending or not batch:
    return False
  pending.remove(metric)
  nxt = 50
  for _ in range(ra):
    cache.store(metric, (BASE[metric] + nxt, nxt))
    nxt += 1
  for j in range(k):
    cache.store(['new0', 'new1', 'new2', 'new3'][j], (400 + nxt, nxt))
    nxt += 1
  cover('influx')
  for _ in range(nd):
    if not pending:
      pending = _nonempty(cache)          # the next pass begins
      if not pending:
        break
    m, b = cache.drain_metric()
    if m not in pending or not b:
      raise AssertionError('%r drained while %r (present when the pass began) still wait' % (m, pending))
    pending.remove(m)
  return True


def C17_influx(strat: int, c0: int, c1: int, c2: int, ra: int, k: int, nd: int) -> bool:
  """
  pre: strat == 1 or strat == 3 or strat == 4
  pre: 0 <= c0 <= 2 and 0 <= c1 <= 2 and 0 <= c2 <= 2
  pre: 0 <= ra <= 3 and 0 <= k <= 4 and 1 <= nd <= 3
  post: __return__
  """
  return _influx(L.SHADOW, strat, c0, c1, c2, ra, k, nd)


def replay_influx(strat, c0, c1, c2, ra, k, nd):
  return _influx(L.real_cache, strat, c0, c1, c2, ra, k, nd)


def _lag(mod, c0, c1, c2, now, lag, ndrains):
  cache = _fill(mod, 4, [c0, c1, c2], now, lag)
  # lag 0 means no filter at all: even datapoints stamped ahead of the writer's clock are drained
  eligible = [m for m in _nonempty(cache) if lag == 0 or now - BASE[m] > lag]
  present = _nonempty(cache)
  ok = True
  got = []
  for _ in range(ndrains):
    metric, batch = cache.drain_metric()
    if metric is None:
      cover('idle')
      # the idle signal is only legitimate when nothing (left) is older than the lag
      if [m for m in eligible if m not in got]:
        ok = False
      break
    cover('drained')
    if metric not in eligible or not batch:
      ok = False            # younger than the lag: must not be drained
    got.append(metric)
  if not present and got:
    ok = False
  return ok


def C17_lag(c0: int, c1: int, c2: int, now: int, lag: int, ndrains: int) -> bool:
  """
  pre: 0 <= c0 <= 2 and 0 <= c1 <= 2 and 0 <= c2 <= 2
  pre: lag >= 0
  pre: now >= 0
  pre: 1 <= ndrains <= 4
  post: __return__
  """
  return _lag(L.SHADOW, c0, c1, c2, now, lag, ndrains)


def replay_lag(c0, c1, c2, now, lag, ndrains):
  return _lag(L.real_cache, c0, c1, c2, now, lag, ndrains)


_S = [('s%d_%s' % (i, n or 'none'), 'strat == %d' % i) for i, n in enumerate(L.STRATEGY_NAMES)]
_SP = []
for _i in (1, 3, 4):
  _SP.append(('s%d_%s_n123' % (_i, L.STRATEGY_NAMES[_i]), 'strat == %d and n <= 3' % _i))
  for _o in range(4):
    _SP.append(('s%d_%s_n4_o%d' % (_i, L.STRATEGY_NAMES[_i], _o), 'strat == %d and n == 4 and o0 == %d' % (_i, _o)))
_SP5 = list(_SP)
for _i in (1, 3, 4):
  for _o in range(4):
    for _o1 in range(4):
      _SP5.append(('s%d_%s_n5_o%d%d' % (_i, L.STRATEGY_NAMES[_i], _o, _o1),
                   'strat == %d and n == 5 and o0 == %d and o1 == %d' % (_i, _o, _o1)))
_ASSUME = ['cache filled by real store() calls: 3 metrics with symbolic datapoint counts, concrete timestamps',
           'carbon.cache executed as a message-stripped shadow module; counterexamples replayed on the real module',
           'random.choice -> symbolic index; time.time -> the symbolic/concrete `now` given to the harness (ints)']

HARNESSES = [
  H('C17_drain_all', quick=dict(timeout=240, shards=_S), thorough=dict(timeout=600, shards=_S), covers=['emptied', 'refused'],
    replay='replay_drain_all',
    encodes=['carbon.cache:_MetricCache.drain_metric', 'carbon.cache:_MetricCache.pop', 'carbon.cache:*Strategy.choose_item',
             'carbon.cache:BucketMaxStrategy.store'],
    assumptions=_ASSUME),
  H('C17_max_seq', quick=dict(timeout=280, shards=[('s%d_o%d' % (st, o), 'strat == %d and o0 == %d' % (st, o)) for st in (2, 6) for o in range(4)], extra_pre=['n <= 3', 'c2 <= 1']),
    thorough=dict(timeout=900, shards=[('s%d_o%d_p%d' % (st, o, q), 'strat == %d and o0 == %d and o1 == %d' % (st, o, q)) for st in (2, 6) for o in range(4) for q in range(4)]),
    covers=['drained'], replay='replay_max_seq', twin_pre=['strat == 2 and o0 == 0'],
    encodes=['carbon.cache:MaxStrategy.choose_item', 'carbon.cache:BucketMaxStrategy.choose_item / store', 'carbon.cache:_MetricCache.drain_metric'],
    assumptions=_ASSUME + ['<= 3 (quick) / 4 (thorough) operations drain / store-new-datapoint (incl. re-stores of a drained metric) on top of the symbolic fill']),
  H('C17_pass_order', quick=dict(timeout=280, shards=_SP, extra_pre=['c2 <= 1']), thorough=dict(timeout=900, shards=_SP5),
    covers=['pass_start'], replay='replay_pass_order',
    encodes=['carbon.cache:NaiveStrategy', 'carbon.cache:SortedStrategy', 'carbon.cache:TimeSortedStrategy',
             'carbon.cache:_MetricCache.drain_metric', 'carbon.cache:_MetricCache.store'],
    assumptions=_ASSUME + ['<= 4 (quick) / 5 (thorough) operations drain / store-new-datapoint on top of the symbolic fill']),
  H('C17_influx', quick=dict(timeout=280, shards=[('s%d' % st, 'strat == %d' % st) for st in (1, 3, 4)], extra_pre=['c2 <= 1', 'nd <= 2']),
    thorough=dict(timeout=900, shards=[('s%d_k%d' % (st, kk), 'strat == %d and k == %d' % (st, kk)) for st in (1, 3, 4) for kk in range(5)]),
    covers=['influx'], replay='replay_influx',
    encodes=['carbon.cache:NaiveStrategy', 'carbon.cache:SortedStrategy', 'carbon.cache:TimeSortedStrategy', 'carbon.cache:_MetricCache.drain_metric', 'carbon.cache:_MetricCache.store'],
    assumptions=_ASSUME + ['symbolic fill of 3 metrics, one drain, then 0-3 new datapoints for the drained metric and 0-4 metrics with new names, then 1-3 drains']),
  H('C17_lag', quick=dict(timeout=240), thorough=dict(timeout=600), covers=['idle', 'drained'], replay='replay_lag',
    encodes=['carbon.cache:TimeSortedStrategy (MIN_TIMESTAMP_LAG filter)', 'carbon.cache:_MetricCache.drain_metric'],
    assumptions=_ASSUME + ['clock reading and MIN_TIMESTAMP_LAG are unbounded symbolic ints; the clock does not advance within the harness']),
]


# ---- interleavings ---------------------------------------------------------------------------------------------------
from vp_lib import racelab as R  # noqa: E402


def _race_setup(b0, b1, b2, b3, mi, ti, v, p1, n, p2):
  stores = [(L.METRICS[mi], L.STAMPS[ti], v)]
  plan = [('W', p1), ('R', n)] + ([('W', p2)] if p2 else [])
  return [b0, b1, b2, b3], stores, plan


def C17_race(strat: int, b0: bool, b1: bool, b2: bool, b3: bool, pv: int, mi: int, ti: int, v: int, p1: int, n: int, p2: int, nd: int) -> bool:
  """
  pre: 0 <= strat <= 6
  pre: 0 <= mi <= 2 and 0 <= ti <= 2
  pre: 0 <= p1 <= 30 and 0 <= n <= 12 and 0 <= p2 <= 8
  pre: 1 <= nd <= 2
  post: __return__
  """
  bits, stores, plan = _race_setup(b0, b1, b2, b3, mi, ti, v, p1, n, p2)
  out = R.symbolic_run(strat, bits, pv, stores, nd, plan)
  if [t for t in out.trace if t[0] == 'R'] and [t for t in out.trace if t[0] == 'W']:
    cover('interleaved')
  if out.errors:
    raise AssertionError('%s thread failed: %r' % (out.errors[0][0], out.errors[0][1]))
  for (m, batch) in out.drains:
    if m is not None and not batch:
      raise AssertionError('a drain returned %r without datapoints' % (m,))
  left = _drain_rest(out.cache, True)
  if left:
    raise AssertionError('with no new input, repeated draining leaves datapoints in the cache: %r' % (left,))
  return True


def _drain_rest(cache, coroutines):
  """No new input from here on: keep draining (sequentially); whatever is still cached afterwards was never handed out."""
  from vp_lib import sched
  for _ in range(6):
    res = sched.run_to_end(cache.drain_metric()) if coroutines else cache.drain_metric()
    if res[0] is None:
      break
  return dict((m, dict(d)) for m, d in cache.items() if d)


def replay_race(strat, b0, b1, b2, b3, pv, mi, ti, v, p1, n, p2, nd):
  bits, stores, plan = _race_setup(b0, b1, b2, b3, mi, ti, v, p1, n, p2)
  sym = R.symbolic_run(strat, bits, pv, stores, nd, plan)
  out = R.real_run(strat, bits, pv, stores, nd, sym.trace)
  if out.replay_problems and not out.errors:
    raise RuntimeError('schedule could not be enforced on real threads: %r' % (out.replay_problems,))
  if out.errors:
    return False
  if [1 for (m, batch) in out.drains if m is not None and not batch]:
    return False
  return not _drain_rest(out.cache, False)


_RS = [('s%d_%s_m%d_d%d' % (i, n or 'none', m, d), 'strat == %d and mi == %d and nd == %d' % (i, m, d)) for i, n in enumerate(L.STRATEGY_NAMES) for m in range(3) for d in (1, 2)]
_RQ = [('s%d_%s_m%d' % (i, L.STRATEGY_NAMES[i] or 'none', m), 'strat == %d and mi == %d and nd == 1' % (i, m)) for i in (2, 4, 6) for m in (0, 2)]
HARNESSES.append(
  H('C17_race', quick=dict(timeout=420, shards=_RQ, extra_pre=['p2 == 0', 'b1 == False and b3 == False', 'ti != 1']),
    thorough=dict(timeout=900, shards=_RS, extra_pre=['b1 == False and b3 == False', 'p2 in (0, 3)', 'ti != 1']),
    covers=['interleaved'], replay='replay_race', twin_pre=['strat == 2 and mi == 0'],
    encodes=['carbon.cache:_MetricCache.store / drain_metric / pop', 'carbon.cache:*Strategy.choose_item / store (statement-level coroutines)'],
    assumptions=['schedules: writer runs p1 statements, receiver (one store) n statements or until blocked, [thorough: writer p2 more], then both to completion; '
                 'coroutines regenerated from the current source of carbon.cache, cooperative lock with atomic try-acquire; '
                 'counterexamples replayed on real OS threads with the real lock'] + _ASSUME))
