"""C04 — an orderly shutdown writes out everything that was accepted."""
from vp_lib.api import H, cover
from vp_lib import cachelab as K
from vp_lib import writerlab as W
from vp_lib.cachelab import sset

from carbon.conf import settings  # noqa: E402

LAGS = [0, 950]


def _stop_point(cmod, strat, lagi, stop_at, pre, s1, s2, m1, m2, ub, shut_set, future=False):
  """writeForever with the stop arriving at a symbolic event index.  Events = every point where the
  other threads can run relative to the writer loop: each read of reactor.running, each sleep, each
  backend call.  The receiving thread stores datapoints at symbolic event indices before the stop.
  Modelled Twisted shutdown: 'before shutdown' triggers (shutdownModifyUpdateSpeed; listeners stop,
  so no store follows) and then running = False; the thread-pool join lets the loop finish."""
  cache = K.build(cmod, strat, [pre, False, False, False], [7, 0, 0, 0], 0, now=1000)
  sset('MIN_TIMESTAMP_LAG', LAGS[lagi])
  if shut_set:
    sset('MAX_UPDATES_PER_SECOND_ON_SHUTDOWN', 1000)
  else:
    settings.pop('MAX_UPDATES_PER_SECOND_ON_SHUTDOWN', None)
  accepted = [('a', 10, 7)] if pre else []
  st = {'n': 0, 'stopped': False}
  planned = [(s1, m1, 0), (s2, m2, 1)]
  reactor = W.StopReactor()

  def tick(*a):
    i = st['n']
    st['n'] += 1
    if st['stopped']:
      return
    for (sj, mj, j) in planned:
      if sj == i:
        m = K.METRICS[mj]
        ts = 100 + j if not (future and j == 0) else 5000        # optionally stamped ahead of the writer's clock (client clock skew)
        cache.store(m, (ts, j))
        accepted.append((m, ts, j))
    if i == stop_at:
      W.writer.shutdownModifyUpdateSpeed()
      reactor.stop()
      st['stopped'] = True
  reactor.on_read = tick
  tm = W.FakeTimeModule(on_sleep=tick)
  cmod.time = tm                       # the strategies read the same clock
  db = W.RecordingDB(preexisting=['a', 'b', 'c'], hook=tick)
  ubucket = W.BucketStub(0, 0) if ub else None
  W.install(cache, db, None, ubucket, reactor=reactor, time_mod=tm)
  try:
    W.writer.writeForever()
  finally:
    W.restore()
    sset('MIN_TIMESTAMP_LAG', 0)
    settings.pop('MAX_UPDATES_PER_SECOND_ON_SHUTDOWN', None)
  if not st['stopped']:
    raise AssertionError('writer thread exited before the stop')
  cover('stopped')
  if accepted:
    cover('had_data')
  written = {}
  for c in db.calls:
    if c[0] == 'write':
      for (ts, v) in c[2]:
        written[(c[1], ts)] = written.get((c[1], ts), 0) + 1
  for (m, ts, v) in accepted:
    if written.get((m, ts), 0) != 1:
      left = m in cache and ts in cache[m]
      raise AssertionError('datapoint %s@%d accepted before the stop was written %d times (still cached: %s) when the writer exited'
                           % (m, ts, written.get((m, ts), 0), left))
  if K.held(cache) != 0:
    raise AssertionError('cache not empty at writer exit')
  if ub and shut_set and ubucket.capacity_changes != [(1000, 1000)]:
    raise AssertionError('update limit not raised for the shutdown')
  return True


def C04_stop_point(strat: int, lagi: int, stop_at: int, pre: bool, s1: int, s2: int, m1: int, m2: int, ub: bool, shut_set: bool, future: bool) -> bool:
  """
  pre: 0 <= strat <= 6
  pre: 0 <= lagi <= 1
  pre: 0 <= stop_at <= 7
  pre: -1 <= s1 <= s2 <= stop_at
  pre: 0 <= m1 <= 1 and 0 <= m2 <= 1
  post: __return__
  """
  return _stop_point(K.SHADOW, strat, lagi, stop_at, pre, s1, s2, m1, m2, ub, shut_set, future)


def replay_stop_point(strat, lagi, stop_at, pre, s1, s2, m1, m2, ub, shut_set, future):
  return _stop_point(K.real_cache, strat, lagi, stop_at, pre, s1, s2, m1, m2, ub, shut_set, future)


def _shards(max_stop):
  return [('s%d_%s_lag%d_st%d' % (i, n or 'none', l, t), 'strat == %d and lagi == %d and stop_at == %d' % (i, l, t))
          for i, n in enumerate(K.STRATEGY_NAMES) for l in (0, 1) if l == 0 or n == 'timesorted' for t in range(max_stop + 1)]
_ASSUME = ['Twisted shutdown as documented: the "before shutdown" triggers run first (shutdownModifyUpdateSpeed; listeners stop, so no store follows the stop), '
           'then reactor.running becomes False, and the thread-pool join lets the writer loop finish its current iteration',
           'events = reads of reactor.running, sleeps and backend calls; the stop arrives at a symbolic event index 0..7; the receiving thread stores '
           '0..2 datapoints (symbolic metric) at symbolic event indices not after the stop; optionally one datapoint cached beforehand',
           'backend without faults, files pre-existing (fault accounting is C03); update bucket absent or stub; MAX_UPDATES_PER_SECOND_ON_SHUTDOWN set / unset; '
           'MIN_TIMESTAMP_LAG 0 or larger than the age of every datapoint (timesorted)',
           'real carbon.writer module with patched globals; cache = message-stripped shadow of carbon.cache (replay: real); statement-level preemption inside a pass: race machinery']

HARNESSES = [
  H('C04_stop_point', quick=dict(timeout=280, shards=_shards(4), extra_pre=['ub == shut_set', 'future == (strat == 4)']), thorough=dict(timeout=1200, shards=_shards(7)),
    covers=['stopped', 'had_data'], replay='replay_stop_point', twin_pre=['strat == 3 and stop_at == 3'],
    encodes=['carbon.writer:writeForever', 'carbon.writer:writeCachedDataPoints', 'carbon.writer:shutdownModifyUpdateSpeed',
             'carbon.cache:_MetricCache.store', 'carbon.cache:_MetricCache.drain_metric'],
    assumptions=_ASSUME),
]
