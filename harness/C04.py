"""C04 — an orderly shutdown writes out everything that was accepted."""
from vp_lib.api import H, cover
from vp_lib import cachelab as K
from vp_lib import writerlab as W
from vp_lib.cachelab import sset

from carbon.conf import settings  # noqa: E402

LAGS = [0, 950]


def _stop_point(cmod, strat, lagi, stop_at, pre, s1, s2, m1, m2, ub, shut_set, future=False):
  """writeForever with the stop arriving at a symbolic event index.  Events = every point where the
  other threads can run relative to the writer loop: each read of reactor.running, each sleep, each
  backend call.  The receiving thread stores datapoints at symbolic event indices before the stop.
  Modelled Twisted shutdown: 'before shutdown' triggers (shutdownModifyUpdateSpeed; listeners stop,
  so no store follows) and then running = False; the thread-pool join lets the loop finish."""
  cache = K.build(cmod, strat, [pre, False, False, False], [7, 0, 0, 0], 0, now=1000)
  sset('MIN_TIMESTAMP_LAG', LAGS[lagi])
  if shut_set:
    sset('MAX_UPDATES_PER_SECOND_ON_SHUTDOWN', 1000)
  else:
    settings.pop('MAX_UPDATES_PER_SECOND_ON_SHUTDOWN', None)
  accepted = [('a', 10, 7)] if pre else []
  st = {'n': 0, 'stopped': False}
  planned = [(s1, m1, 0), (s2, m2, 1)]
  reactor = W.StopReactor()

  def tick(*a):
    i = st['n']
    st['n'] += 1
    if st['stopped']:
      return
    for (sj, mj, j) in planned:
      if sj == i:
        m = K.METRICS[mj]
        ts = 100 + j if not (future and j == 0) else 5000        # optionally stamped ahead of the writer's clock (client clock skew)
        cache.store(m, (ts, j))
        accepted.append((m, ts, j))
    if i == stop_at:
      W.writer.shutdownModifyUpdateSpeed()
      reactor.stop()
      st['stopped'] = True
  reactor.on_read = tick
  tm = W.FakeTimeModule(on_sleep=tick)
  cmod.time = tm                       # the strategies read the same clock
  db = W.RecordingDB(preexisting=['a', 'b', 'c'], hook=tick)
  ubucket = W.BucketStub(0, 0) if ub else None
  W.install(cache, db, None, ubucket, reactor=reactor, time_mod=tm)
  try:
    W.writer.writeForever()
  finally:
    W.restore()
    sset('MIN_TIMESTAMP_LAG', 0)
    settings.pop('MAX_UPDATES_PER_SECOND_ON_SHUTDOWN', None)
  if not st['stopped']:
    raise AssertionError('writer thread exited before the stop')
  cover('stopped')
  if accepted:
    cover('had_data')
  written = {}
  for c in db.calls:
    if c[0] == 'write':
      for (ts, v) in c[2]:
        written[(c[1], ts)] = written.get((c[1], ts), 0) + 1
  for (m, ts, v) in accepted:
    if written.get((m, ts), 0) != 1:
      left = m in cache and ts in cache[m]
      raise AssertionError('datapoint %s@%d accepted before the stop was written %d times (still cached: %s) when the writer exited'
                           % (m, ts, written.get((m, ts), 0), left))
  if K.held(cache) != 0:
    raise AssertionError('cache not empty at writer exit')
  if ub and shut_set and ubucket.capacity_changes != [(1000, 1000)]:
    raise AssertionError('update limit not raised for the shutdown')
  return True


def C04_stop_point(strat: int, lagi: int, stop_at: int, pre: bool, s1: int, s2: int, m1: int, m2: int, ub: bool, shut_set: bool, future: bool) -> bool:
  """
  pre: 0 <= strat <= 6
  pre: 0 <= lagi <= 1
  pre: 0 <= stop_at <= 7
  pre: -1 <= s1 <= s2 <= stop_at
  pre: 0 <= m1 <= 1 and 0 <= m2 <= 1
  post: __return__
  """
  return _stop_point(K.SHADOW, strat, lagi, stop_at, pre, s1, s2, m1, m2, ub, shut_set, future)


def replay_stop_point(strat, lagi, stop_at, pre, s1, s2, m1, m2, ub, shut_set, future):
  return _stop_point(K.real_cache, strat, lagi, stop_at, pre, s1, s2, m1, m2, ub, shut_set, future)


def _shards(max_stop):
  return [('s%d_%s_lag%d_st%d' % (i, n or 'none', l, t), 'strat == %d and lagi == %d and stop_at == %d' % (i, l, t))
          for i, n in enumerate(K.STRATEGY_NAMES) for l in (0, 1) if l == 0 or n == 'timesorted' for t in range(max_stop + 1)]
_ASSUME = ['Twisted shutdown as documented: the "before shutdown" triggers run first (shutdownModifyUpdateSpeed; listeners stop, so no store follows the stop), '
           'then reactor.running becomes False, and the thread-pool join lets the writer loop finish its current iteration',
           'events = reads of reactor.running, sleeps and backend calls; the stop arrives at a symbolic event index 0..7; the receiving thread stores '
           '0..2 datapoints (symbolic metric) at symbolic event indices not after the stop; optionally one datapoint cached beforehand',
           'backend without faults, files pre-existing (fault accounting is C03); update bucket absent or stub; MAX_UPDATES_PER_SECOND_ON_SHUTDOWN set / unset; '
           'MIN_TIMESTAMP_LAG 0 or larger than the age of every datapoint (timesorted)',
           'real carbon.writer module with patched globals; cache = message-stripped shadow of carbon.cache (replay: real); statement-level preemption inside a pass: race machinery']

HARNESSES = [
  H('C04_stop_point', quick=dict(timeout=280, shards=_shards(4), extra_pre=['ub == shut_set', 'future == (strat == 4)']), thorough=dict(timeout=1200, shards=_shards(7)),
    covers=['stopped', 'had_data'], replay='replay_stop_point', twin_pre=['strat == 3 and stop_at == 3'],
    encodes=['carbon.writer:writeForever', 'carbon.writer:writeCachedDataPoints', 'carbon.writer:shutdownModifyUpdateSpeed',
             'carbon.cache:_MetricCache.store', 'carbon.cache:_MetricCache.drain_metric'],
    assumptions=_ASSUME),
]


# ---- preemption inside a pass, combined with the stop -------------------------------------------------------------------------
from vp_lib import racelab as R  # noqa: E402
from vp_lib import sched, threadreplay  # noqa: E402
import carbon.util as real_util  # noqa: E402

_WT = ['writeCachedDataPoints', 'writeForever', 'shutdownModifyUpdateSpeed']
_BT = ['drain', 'peek', 'setCapacityAndFillRate']
COW = sched.coroutinise(W.writer, _WT, ['cache', 'UPDATE_BUCKET'], call_targets=R.TARGETS + ['drain', 'setCapacityAndFillRate'])
CU = sched.coroutinise(real_util, _BT, ['self'], call_targets=['peek'])
if COW.__vp_missing__ or CU.__vp_missing__:
  raise LookupError('cannot instrument carbon.writer / carbon.util.TokenBucket')


class _Clock(object):
  """time() / sleep() of carbon.util: sleep advances the clock; a negative argument raises as time.sleep does."""

  def __init__(self):
    self.now = 1000.0

  def time(self):
    return self.now

  def sleep(self, d):
    if d < 0:
      raise ValueError('sleep length must be non-negative')
    self.now += d


def _race_problem(db, accepted, cache):
  written = {}
  for c in db.calls:
    if c[0] == 'write':
      for (ts, v) in c[2]:
        written.setdefault((c[1], ts), []).append(v)
  versions = {}
  for (m, ts, v) in accepted:
    versions.setdefault((m, ts), []).append(v)
  for (m, ts), vs in versions.items():
    got = written.get((m, ts), [])
    if not got:
      return 'datapoint %s@%s accepted before the stop was never written (still cached: %s) when the writer exited' % (m, ts, m in cache and ts in cache[m])
    if len(got) > len(vs):
      return 'datapoint %s@%s written %d times' % (m, ts, len(got))
    if got[-1] != vs[-1]:
      return 'the most recent value of %s@%s was not the last one written' % (m, ts)
  if K.held(cache) != 0:
    return 'cache not empty at writer exit'
  return None


def _drive(W_t, R_t, p1, n, p2, limit=900):
  """Writer runs p1 statements, the other thread n statements, the writer p2 more, then the other thread
  to its end (the writer advances only while it is blocked), then the writer to its end."""
  trace = []
  k = 0
  while k < p1 and not W_t.done:
    if W_t.step(trace) != 'ran':
      break
    k += 1
  k = 0
  while k < n and not R_t.done:
    if R_t.step(trace) != 'ran':
      break
    k += 1
  k = 0
  while k < p2 and not W_t.done:
    if W_t.step(trace) != 'ran':
      break
    k += 1
  total = 0
  while not R_t.done:
    total += 1
    if total > limit:
      raise sched.Deadlock('step limit')
    if R_t.step(trace) == 'blocked':
      if W_t.step(trace) != 'ran':
        raise sched.Deadlock('both threads blocked')
  while not W_t.done:
    total += 1
    if total > limit:
      raise sched.Deadlock('step limit')
    if W_t.step(trace) == 'blocked':
      raise sched.Deadlock('writer blocked with nobody to release the lock')
  return trace


def _coroutine_run(strat, kind, b0, b2, mi, ti, ub, p1, n, p2):
  """kind 0: the receiving thread stores a datapoint somewhere inside a pass; the stop arrives during the
  idle sleep that follows, together with one more datapoint.  kind 1: the stop itself (the shutdown
  trigger changing the limits, then running = False) preempts the pass."""
  R.CO.choice = lambda seq: seq[0]
  K.apply_limits(float('inf'), False)
  sset('MIN_TIMESTAMP_LAG', 0)
  sset('MAX_UPDATES_PER_SECOND_ON_SHUTDOWN', 1000)
  cache = R.CO._MetricCache(K.strategy_class(R.CO, strat))
  cache.lock = sched.CoopLock()
  accepted = []
  for i, bit in ((0, b0), (1, b2)):
    if bit:
      sched.run_to_end(cache.store(K.METRICS[i], (10, 1 + i)))
      accepted.append((K.METRICS[i], 10, 1 + i))
  clock = _Clock()
  CU.time, CU.sleep = clock.time, clock.sleep
  bucket = CU.TokenBucket(1, 1) if ub else None
  reactor = W.StopReactor()
  db = W.RecordingDB(preexisting=['a', 'b', 'c'])
  st = {'stop_sleep': None, 'x': False, 'sleeps': 0}
  threads = {}

  def on_sleep(d):
    i = st['sleeps']
    st['sleeps'] += 1
    if kind == 0 and st['stop_sleep'] is None and threads['R'].done:
      if not cache.lock.held:
        sched.run_to_end(cache.store('b', (200, 9)))
        accepted.append(('b', 200, 9))
        st['x'] = True
      sched.run_to_end(COW.shutdownModifyUpdateSpeed())
      reactor.stop()
      st['stop_sleep'] = i
  tm = W.FakeTimeModule(on_sleep=on_sleep)
  R.CO.time = tm
  W.install(cache, db, None, bucket, reactor=reactor, time_mod=tm, mod=COW)
  store = (K.METRICS[mi], [10, 20, 30][ti], 7)

  def other():
    if kind == 0:
      yield from cache.store(store[0], (store[1], store[2]))
    else:
      yield from COW.shutdownModifyUpdateSpeed()
      yield ('line', 0)
      reactor.stop()
  threads['W'] = sched.Thread('W', COW.writeForever())
  threads['R'] = sched.Thread('R', other())
  try:
    trace = _drive(threads['W'], threads['R'], p1, n, p2)
  finally:
    W.restore()
    sset('MIN_TIMESTAMP_LAG', 0)
    settings.pop('MAX_UPDATES_PER_SECOND_ON_SHUTDOWN', None)
    settings.__dict__.pop('MIN_TIMESTAMP_LAG', None)
  if kind == 0 and threads['R'].error is None:
    accepted.append(store)
  return trace, threads, accepted, db, cache, st


def C04_race(strat: int, kind: int, b0: bool, b2: bool, mi: int, ti: int, ub: bool, p1: int, n: int, p2: int) -> bool:
  """
  pre: 0 <= strat <= 6
  pre: 0 <= kind <= 1
  pre: 0 <= mi <= 2 and 0 <= ti <= 2
  pre: 0 <= p1 <= 95 and 0 <= n <= 14 and 0 <= p2 <= 6
  pre: p1 <= 70 or kind == 1
  post: __return__
  """
  trace, threads, accepted, db, cache, st = _coroutine_run(strat, kind, b0, b2, mi, ti, ub, p1, n, p2)
  if [t for t in trace if t[0] == 'R'] and [t for t in trace if t[0] == 'W']:
    cover('interleaved')
  if threads['R'].error is not None:
    if isinstance(threads['R'].error, ValueError) and K.STRATEGY_NAMES[strat] == 'bucketmax' and kind == 0:
      return True                                     # known finding F5 (C17): the store itself fails, nothing was accepted
    raise AssertionError('the other thread failed: %r' % (threads['R'].error,))
  if threads['W'].error is not None:
    raise AssertionError('writer thread died: %r' % (threads['W'].error,))
  if kind == 0 and st['stop_sleep'] is None:
    return True                                       # the stop never came within this schedule family
  cover('stopped')
  problem = _race_problem(db, accepted, cache)
  if problem:
    raise AssertionError(problem)
  return True


def replay_race(strat, kind, b0, b2, mi, ti, ub, p1, n, p2):
  trace, threads, accepted, db, cache, st = _coroutine_run(strat, kind, b0, b2, mi, ti, ub, p1, n, p2)
  if kind == 0 and st['stop_sleep'] is None:
    return True
  # the same schedule on real threads: real carbon.writer, carbon.cache, carbon.util.TokenBucket
  K.real_cache.choice = lambda seq: seq[0]
  K.apply_limits(float('inf'), False)
  sset('MIN_TIMESTAMP_LAG', 0)
  sset('MAX_UPDATES_PER_SECOND_ON_SHUTDOWN', 1000)
  rcache = K.real_cache._MetricCache(K.strategy_class(K.real_cache, strat))
  raccepted = []
  for i, bit in ((0, b0), (1, b2)):
    if bit:
      rcache.store(K.METRICS[i], (10, 1 + i))
      raccepted.append((K.METRICS[i], 10, 1 + i))
  clock = _Clock()
  old_util = (real_util.time, real_util.sleep)
  real_util.time, real_util.sleep = clock.time, clock.sleep
  bucket = real_util.TokenBucket(1, 1) if ub else None
  reactor = W.StopReactor()
  rdb = W.RecordingDB(preexisting=['a', 'b', 'c'])
  rs = {'sleeps': 0}

  def on_sleep(d):
    i = rs['sleeps']
    rs['sleeps'] += 1
    if kind == 0 and i == st['stop_sleep']:
      if st['x']:
        rcache.store('b', (200, 9))
        raccepted.append(('b', 200, 9))
      W.writer.shutdownModifyUpdateSpeed()
      reactor.stop()
  tm = W.FakeTimeModule(on_sleep=on_sleep)
  K.real_cache.time = tm
  W.install(rcache, rdb, None, bucket, reactor=reactor, time_mod=tm)
  store = (K.METRICS[mi], [10, 20, 30][ti], 7)

  def other():
    if kind == 0:
      rcache.store(store[0], (store[1], store[2]))
    else:
      W.writer.shutdownModifyUpdateSpeed()
      reactor.stop()
  try:
    results, problems = threadreplay.run_threads(
      trace, {'W': W.writer.writeForever, 'R': other}, ('carbon/cache.py', 'carbon/writer.py', 'carbon/util.py'), R.TARGETS + _WT + _BT)
  finally:
    W.restore()
    real_util.time, real_util.sleep = old_util
    import time as _t
    K.real_cache.time = _t
    sset('MIN_TIMESTAMP_LAG', 0)
    settings.pop('MAX_UPDATES_PER_SECOND_ON_SHUTDOWN', None)
    settings.__dict__.pop('MIN_TIMESTAMP_LAG', None)
  errs = dict((k, v) for k, (kind_, v) in results.items() if kind_ == 'error')
  if problems and not errs:
    raise RuntimeError('schedule could not be enforced on real threads: %r' % (problems,))
  if 'R' in errs:
    return isinstance(errs['R'], ValueError) and K.STRATEGY_NAMES[strat] == 'bucketmax' and kind == 0
  if 'W' in errs:
    return False
  if kind == 0:
    raccepted.append(store)
  return _race_problem(rdb, raccepted, rcache) is None


_RQ = ([('k0_s%d_m%d_b%d' % (s, m, b), 'kind == 0 and strat == %d and mi == %d and not ub and b2 == %s' % (s, m, bool(b))) for s in (3, 6) for m in (0, 2) for b in (0, 1)] +
       [('k1_s%d_ub%d' % (s, u), 'kind == 1 and strat == %d and ub == %s and mi == 0 and ti == 1' % (s, bool(u))) for s in (3,) for u in (0, 1)])
_RT = ([('k0_s%d_m%d_ub%d' % (s, m, u), 'kind == 0 and strat == %d and mi == %d and ub == %s' % (s, m, bool(u))) for s in range(7) for m in range(3) for u in (0, 1)] +
       [('k1_s%d_ub%d' % (s, u), 'kind == 1 and strat == %d and ub == %s and mi == 0 and ti == 1' % (s, bool(u))) for s in range(7) for u in (0, 1)])
HARNESSES.append(
  H('C04_race', quick=dict(timeout=420, shards=_RQ, extra_pre=['ti != 0', 'b0', 'b2 or kind == 0', 'n in (4, 14)', 'p2 in (0, 3)']), thorough=dict(timeout=900, shards=_RT, extra_pre=['n in (0, 2, 4, 6, 9, 14)', 'p2 in (0, 1, 3, 6)']),
    covers=['interleaved', 'stopped'], replay='replay_race', twin_pre=['strat == 3 and mi == 0'],
    encodes=['carbon.writer:writeForever / writeCachedDataPoints / shutdownModifyUpdateSpeed (statement-level coroutines)',
             'carbon.cache:_MetricCache.store / drain_metric / pop, strategies (statement-level coroutines)',
             'carbon.util:TokenBucket.drain / peek / setCapacityAndFillRate (statement-level coroutines, concrete capacity 1, rate 1/s)'],
    assumptions=['schedules: the writer loop runs p1 statements, the other thread n statements, the writer p2 more, then the other thread to its end, then the writer to its end',
                 'kind 0: the other thread stores one datapoint; the stop (with one more datapoint just before it) arrives during the first idle sleep after that store',
                 'kind 1: the other thread is the shutdown trigger itself (shutdownModifyUpdateSpeed, then running = False) preempting the pass, update bucket real or absent',
                 'backend without faults, files pre-existing; MAX_UPDATES_PER_SECOND_ON_SHUTDOWN = 1000; a store that raises (known finding F5, bucketmax) is not counted as accepted',
                 'counterexamples replayed on real OS threads running the real carbon.writer, carbon.cache and carbon.util']))
