"""C07 — relay send queues deliver in order, exactly once, within their bounds."""
from vp_lib.api import H, cover
from vp_lib import clientlab as L
from vp_lib.carbonenv import Recorder

from carbon import events  # noqa: E402

NEW = ('new', (99, 99))


def _arrive(mod, n, low, mx, hard, connected, full, hp, paused):
  clock = L.configure(mod, low, mx, hard, 3)
  f = L.make_factory(mod)
  proto = None
  if connected:
    proto, t, batches = L.connect(f)
    if paused:
      proto.pauseProducing()
  before = L.fill(f, n)
  if full and not f.queueFull.called:
    f.queueFull.callback(n)
  drops0, att0 = L.stat(f.fullQueueDrops), L.stat(f.attemptedRelays)
  was_full_signalled = f.queueFull.called
  if hp:
    f.sendHighPriorityDatapoint(*NEW)
  else:
    f.sendDatapoint(*NEW)
  after = list(f.queue)
  drops, att = L.stat(f.fullQueueDrops) - drops0, L.stat(f.attemptedRelays) - att0
  if att != 1:
    raise AssertionError('attemptedRelays not counted')
  if hp:
    cover('self_metric')
    if after != [NEW] + before or drops != 0:
      raise AssertionError('self-metric not put at the head of the queue')
  elif n >= hard:
    cover('dropped')
    if after != before or drops != 1:
      raise AssertionError('discard at the hard limit not clean or not counted')
  else:
    cover('queued')
    if after != before + [NEW] or drops != 0:
      raise AssertionError('datapoint not appended in arrival order (or discarded below the hard limit)')
    if len(after) > max(n, hard):
      raise AssertionError('queue grew beyond the hard limit')
  if (not hp) and n >= mx and not f.queueFull.called:
    raise AssertionError('queueFull not signalled at MAX_QUEUE_SIZE')
  if (not was_full_signalled) and f.queueFull.called and not (n >= mx and not hp):
    raise AssertionError('queueFull signalled below MAX_QUEUE_SIZE')
  # a send is scheduled iff there is a connection to send on
  pending = [c for c in clock.getDelayedCalls()]
  if connected and not pending:
    raise AssertionError('no send scheduled although connected')
  return True


def C07_arrive(n: int, low: int, mx: int, hard: int, connected: bool, full: bool, hp: bool, paused: bool) -> bool:
  """
  pre: 0 <= n <= 4
  pre: 0 <= low <= mx <= hard
  pre: mx >= 1
  pre: (not full) or n >= mx
  post: __return__
  """
  return _arrive(L.SHADOW, n, low, mx, hard, connected, full, hp, paused)


def replay_arrive(n, low, mx, hard, connected, full, hp, paused):
  return _arrive(L.real_client, n, low, mx, hard, connected, full, hp, paused)


def _send(mod, n, low, mx, hard, batch, paused, connected):
  clock = L.configure(mod, low, mx, hard, batch)
  f = L.make_factory(mod)
  before = L.fill(f, n)
  proto, batches = None, []
  sent0 = 0
  if connected:
    proto, t, batches = L.connect(f)          # connectionMade itself sends the first batch
    sent0 = L.stat(proto.sent)
    del batches[:]
    f.queue.clear()
    before = L.fill(f, n)
    if paused:
      proto.pauseProducing()
    sent0 = L.stat(proto.sent)
    for c in clock.getDelayedCalls():
      c.cancel()
    f.sendQueued()
  else:
    f.sendQueued()
  after = list(f.queue)
  if (not connected) or paused:
    cover('held')
    if after != before or batches:
      raise AssertionError('sent while paused or disconnected')
    return True
  k = min(n, batch)
  if n == 0:
    cover('idle')
    return after == [] and batches == []
  cover('sent')
  if batches != [before[:k]] or after != before[k:]:
    raise AssertionError('batch is not the first min(len, MAX_DATAPOINTS_PER_MESSAGE) datapoints in order')
  if L.stat(proto.sent) - sent0 != k:
    raise AssertionError('sent counter wrong')
  pending = bool(clock.getDelayedCalls())
  if pending != (len(after) > 0):
    raise AssertionError('rescheduling does not match the remaining queue')
  return True


def C07_send(n: int, low: int, mx: int, hard: int, batch: int, paused: bool, connected: bool) -> bool:
  """
  pre: 0 <= n <= 5
  pre: 0 <= low <= mx <= hard
  pre: mx >= 1 and batch >= 1
  post: __return__
  """
  return _send(L.SHADOW, n, low, mx, hard, batch, paused, connected)


def replay_send(n, low, mx, hard, batch, paused, connected):
  return _send(L.real_client, n, low, mx, hard, batch, paused, connected)


def _lost(mod, n, dynamic, retries, maxr, failed, in_router):
  clock = L.configure(mod, 2, 3, 4, 2, dynamic=dynamic, max_retries=maxr)
  router = L.StubRouter([L.DEST] if in_router else [])
  f = L.make_factory(mod, router=router)
  proto = None
  if not failed:
    proto, t, batches = L.connect(f)
    f.queue.clear()
    for c in clock.getDelayedCalls():
      c.cancel()
    if not in_router:
      router.removeDestination(L.DEST)
  before = L.fill(f, n)
  f.retries = retries
  with Recorder(events.metricGenerated) as rec:
    L.lose(f, proto, failed=failed)
  after = list(f.queue)
  gives_up = dynamic and (retries + 1 >= maxr) and in_router
  if gives_up:
    cover('rerouted')
    if rec.items != before or after != []:
      raise AssertionError('queued datapoints not re-routed exactly once in order')
    if router.hasDestination(L.DEST):
      raise AssertionError('destination still configured')
  else:
    cover('kept')
    if after != before or rec.items != []:
      raise AssertionError('queue changed although the destination was not declared down')
  if f.connectedProtocol is not None and not failed:
    raise AssertionError('connectedProtocol not cleared')
  return True


def C07_lost(n: int, dynamic: bool, retries: int, maxr: int, failed: bool, in_router: bool) -> bool:
  """
  pre: 0 <= n <= 3
  pre: 0 <= retries <= 8 and 1 <= maxr <= 8
  post: __return__
  """
  return _lost(L.SHADOW, n, dynamic, retries, maxr, failed, in_router)


def replay_lost(n, dynamic, retries, maxr, failed, in_router):
  return _lost(L.real_client, n, dynamic, retries, maxr, failed, in_router)


def _outage(mod, n0, n1, n2, fails, connected_first, batch):
  """Through the client manager with a dynamic router: arrivals, an outage of `fails` failed attempts
  (the destination is declared down after DYNAMIC_ROUTER_MAX_RETRIES = 2), arrivals during the outage
  (buffered by the manager's stand-in factory), recovery, more arrivals, timers run out.  Whatever
  the lengths: every accepted datapoint reaches the connection exactly once, in arrival order."""
  clock = L.configure(mod, 2, 50, 60, batch, dynamic=True, max_retries=2)
  router = L.StubRouter([])
  mgr = mod.CarbonClientManager(router)
  fake = mgr.client_factories[None]

  def relay(metric, datapoint):
    mgr.sendDatapoint(metric, datapoint)
  events.metricGenerated.addHandler(relay)
  accepted, sent = [], []
  try:
    mgr.startClient(L.DEST)
    f = mgr.client_factories[L.DEST]
    f.clock, f.jitter, f.connector, f.started = clock, 0, L.Connector(), True
    drops0 = L.stat('destinations.10_0_0_1:2004:a.fullQueueDrops')

    def arrive(k):
      for _ in range(k):
        item = ('m', (len(accepted), len(accepted)))
        events.metricGenerated(*item)
        accepted.append(item)
    proto = None
    if connected_first:
      proto, t, batches = L.connect(f)
      sent.append(batches)
    arrive(n0)
    for i in range(fails):
      if i == 0 and proto is not None:
        L.lose(f, proto, failed=False)
      else:
        L.lose(f, None, failed=True)
    declared_down = fails >= 2 or not connected_first
    if declared_down == router.hasDestination(L.DEST):
      raise AssertionError('router membership wrong after %d failed attempts' % fails)
    arrive(n1)
    if fails > 0 or not connected_first:
      cover('recovered_after_down' if declared_down else 'reconnected')
      proto, t, batches = L.connect(f)
      sent.append(batches)
    arrive(n2)
    L.drain_clock(clock)
    flat = [x for bs in sent for b in bs for x in b]
    if flat != accepted:
      raise AssertionError('accepted %d datapoints, %d reached the connection (held back: %d, stand-in buffer: %d)'
                           % (len(accepted), len(flat), len(f.queue), len(fake.queue)))
    if L.stat('destinations.10_0_0_1:2004:a.fullQueueDrops') != drops0:
      raise AssertionError('drops counted far below the hard limit')
  finally:
    events.metricGenerated.removeHandler(relay)
    events.resumeReceivingMetrics.removeHandler(fake.reinjectDatapoints)
  return True


def C07_outage(n0: int, n1: int, n2: int, fails: int, connected_first: bool, batch: int) -> bool:
  """
  pre: 0 <= n0 <= 2 and 0 <= n1 <= 2 and 0 <= n2 <= 2
  pre: 0 <= fails <= 3
  pre: 1 <= batch <= 3
  post: __return__
  """
  return _outage(L.SHADOW, n0, n1, n2, fails, connected_first, batch)


def replay_outage(n0, n1, n2, fails, connected_first, batch):
  return _outage(L.real_client, n0, n1, n2, fails, connected_first, batch)


def _stop(mod, n, batch, kind, via_manager):
  """Orderly stop of a connected destination: the connection is closed only after the whole queue
  has been handed to the transport."""
  clock = L.configure(mod, 2, 100, 100, batch)
  router = L.StubRouter([L.DEST])
  if via_manager:
    mgr = mod.CarbonClientManager(router)
    mgr.running = False
    f = L.make_factory(mod, kind=kind, router=router)
    mgr.client_factories[L.DEST] = f
    mgr.pooled_factories[L.DEST[0:2]].add(f)
  else:
    f = L.make_factory(mod, kind=kind, router=router)
  proto, t, batches = L.connect(f, record=True)
  for c in clock.getDelayedCalls():
    c.cancel()
  f.queue.clear()
  del batches[:]
  before = L.fill(f, n)
  closed_after = []
  orig = t.loseConnection

  def lose_conn():
    closed_after.append(sum(len(b) for b in batches))
    orig()
  t.loseConnection = lose_conn
  if n:
    f.scheduleSend()
  if via_manager:
    mgr.stopClient(L.DEST)
  else:
    f.disconnect()
  L.drain_clock(clock)
  cover('stopped')
  flat = [x for b in batches for x in b]
  if flat != before:
    raise AssertionError('queue not transmitted exactly once in order before the stop: %r' % (flat,))
  if not closed_after:
    raise AssertionError('connection never closed')
  if closed_after[0] != n:
    raise AssertionError('connection closed after %d of %d datapoints' % (closed_after[0], n))
  return True


def C07_stop(n: int, batch: int, pickle_proto: bool, via_manager: bool) -> bool:
  """
  pre: 0 <= n <= 5
  pre: 1 <= batch <= 6
  post: __return__
  """
  return _stop(L.SHADOW, n, batch, 'pickle' if pickle_proto else 'line', via_manager)


def replay_stop(n, batch, pickle_proto, via_manager):
  return _stop(L.real_client, n, batch, 'pickle' if pickle_proto else 'line', via_manager)


EVENTS = ['arrive', 'self_metric', 'connect', 'lose', 'pause', 'resume', 'tick', 'fail']


def _seq(mod, ops, low, mx, hard, batch, start_connected=False):
  """Event sequences from a disconnected empty factory.  Model: what was accepted is written to
  SOME live connection exactly once, in arrival order (self-metrics jump the queue); nothing is
  written to a connection that has been lost; discards only at the hard limit and counted."""
  clock = L.configure(mod, low, mx, hard, batch)
  f = L.make_factory(mod)
  proto, transport, live_batches = None, None, None
  model = []            # expected queue
  written = []          # datapoints written to live connections, in order
  dead_writes = 0
  seqno = 0
  drops0 = L.stat(f.fullQueueDrops)
  expected_drops = 0
  all_batches = []      # (batches list, alive flag holder)
  if start_connected:
    proto, transport, live_batches = L.connect(f)
    all_batches.append((live_batches, [True]))

  def harvest():
    for entry in all_batches:
      bl, alive = entry
      while bl:
        b = bl.pop(0)
        if alive[0]:
          for x in b:
            if not model or model[0] != x:
              raise AssertionError('wrote %r, expected head of queue %r' % (x, model[:1]))
            model.pop(0)
            written.append(x)
        else:
          raise AssertionError('datapoints written to a connection that was already lost')
  for op in ops:
    name = EVENTS[op]
    if name == 'arrive':
      item = ('m', (seqno, seqno))
      seqno += 1
      if len(model) >= hard:
        expected_drops += 1
      else:
        model.append(item)
      f.sendDatapoint(*item)
    elif name == 'self_metric':
      item = ('carbon.self', (seqno, seqno))
      seqno += 1
      model.insert(0, item)
      f.sendHighPriorityDatapoint(*item)
    elif name == 'connect':
      if proto is None:
        proto, transport, live_batches = L.connect(f)
        all_batches.append((live_batches, [True]))
    elif name in ('lose', 'fail'):
      if proto is not None:
        all_batches[-1][1][0] = False
        L.lose(f, proto, failed=False)
        proto = None
      elif name == 'fail':
        L.lose(f, None, failed=True)
    elif name == 'pause':
      if proto is not None:
        proto.pauseProducing()
    elif name == 'resume':
      if proto is not None:
        proto.resumeProducing()
    elif name == 'tick':
      clock.advance(1)
    harvest()
    if list(f.queue) != model:
      raise AssertionError('queue %r differs from the model %r' % (list(f.queue), model))
  cover('ran')
  if L.stat(f.fullQueueDrops) - drops0 != expected_drops:
    raise AssertionError('discards not counted exactly')
  # progress: once every timer has fired, a connected destination that is not paused has been sent everything
  L.drain_clock(clock)
  harvest()
  if list(f.queue) != model:
    raise AssertionError('queue differs from the model after the timers ran')
  if proto is not None and not proto.paused and model:
    raise AssertionError('quiescent, connected, not paused, yet %d accepted datapoints were never written' % len(model))
  return True


def _progress(mod, e0, e1, low, mx, hard, batch):
  """From a connected factory: two symbolic events, then one more arrival, then all timers fire:
  everything accepted has been written to the live connection, exactly once and in order."""
  evs = ['arrive', 'tick', 'lose_reconnect', 'pause_resume', 'self_metric', 'fail_reconnect']
  clock = L.configure(mod, low, mx, hard, batch)
  f = L.make_factory(mod)
  proto, t, batches = L.connect(f)
  conns = [batches]
  expect = []
  seqno = 0
  for e in (e0, e1, 0):
    name = evs[e]
    if name == 'arrive':
      item = ('m', (seqno, seqno))
      seqno += 1
      if len(f.queue) < hard:
        expect.append(item)
      f.sendDatapoint(*item)
    elif name == 'self_metric':
      item = ('carbon.self', (seqno, seqno))
      seqno += 1
      expect.append(item)
      f.sendHighPriorityDatapoint(*item)
    elif name == 'tick':
      clock.advance(1)
    elif name in ('lose_reconnect', 'fail_reconnect'):
      L.lose(f, proto)
      if name == 'fail_reconnect':
        L.lose(f, None, failed=True)
      proto, t, batches = L.connect(f)
      conns.append(batches)
    elif name == 'pause_resume':
      proto.pauseProducing()
      clock.advance(1)
      proto.resumeProducing()
  L.drain_clock(clock)
  cover('quiesced')
  sent = [x for bl in conns for b in bl for x in b]
  if sorted(sent, key=lambda x: x[1]) != sorted(expect, key=lambda x: x[1]):
    raise AssertionError('accepted %r, written %r' % (expect, sent))
  if len(f.queue) != 0:
    raise AssertionError('%d datapoints left queued at quiescence on a live connection' % len(f.queue))
  normal = [x for x in sent if x[0] == 'm']
  if normal != sorted(normal, key=lambda x: x[1]):
    raise AssertionError('ordinary datapoints written out of arrival order')
  return True


def C07_progress(e0: int, e1: int, low: int, mx: int, hard: int, batch: int) -> bool:
  """
  pre: 0 <= e0 <= 5 and 0 <= e1 <= 5
  pre: 0 <= low <= mx <= hard
  pre: mx >= 1 and batch >= 1
  post: __return__
  """
  return _progress(L.SHADOW, e0, e1, low, mx, hard, batch)


def replay_progress(e0, e1, low, mx, hard, batch):
  return _progress(L.real_client, e0, e1, low, mx, hard, batch)


def C07_seq(o0: int, o1: int, o2: int, o3: int, n: int, low: int, mx: int, hard: int, batch: int, conn: bool) -> bool:
  """
  pre: 0 <= o0 < 8 and 0 <= o1 < 8 and 0 <= o2 < 8 and 0 <= o3 < 8
  pre: 1 <= n <= 4
  pre: 0 <= low <= mx <= hard <= 3
  pre: mx >= 1
  pre: 1 <= batch <= 2
  post: __return__
  """
  return _seq(L.SHADOW, [o0, o1, o2, o3][:n], low, mx, hard, batch, conn)


def replay_seq(o0, o1, o2, o3, n, low, mx, hard, batch, conn):
  return _seq(L.real_client, [o0, o1, o2, o3][:n], low, mx, hard, batch, conn)


_ASSUME = ['carbon.client executed as a message-stripped shadow module; replay on the real module',
           'reactor = twisted.internet.task.Clock; transport = recording stub; router = stub; protocol encoders replaced by a recorder '
           '(what goes on the wire is C15); SSL transport, DESTINATION_POOL_REPLICAS and USE_RATIO_RESET off',
           'thresholds SEND_QUEUE_LOW_WATERMARK <= MAX_QUEUE_SIZE <= SEND_QUEUE_HARD_MAX are independent unbounded symbolic ints '
           '(more general than MAX*pct; the derivation itself is an engine-S lemma)']

HARNESSES = [
  H('C07_arrive', quick=dict(timeout=280, shards=[('n%d' % k, 'n == %d' % k) for k in range(5)]), covers=['self_metric', 'dropped', 'queued'],
    replay='replay_arrive', twin_pre=['n <= 4'],
    encodes=['carbon.client:CarbonClientFactory.sendDatapoint', 'carbon.client:CarbonClientFactory.sendHighPriorityDatapoint',
             'carbon.client:CarbonClientFactory.enqueue', 'carbon.client:CarbonClientFactory.scheduleSend'],
    assumptions=_ASSUME + ['inductive step: queue of symbolic length 0..4, symbolic connection / pause / queueFull state']),
  H('C07_send', quick=dict(timeout=280, shards=[('n%d' % k, 'n == %d' % k) for k in range(6)]), covers=['held', 'idle', 'sent'],
    replay='replay_send', twin_pre=['n <= 5'],
    encodes=['carbon.client:CarbonClientProtocol.sendQueued', 'carbon.client:CarbonClientFactory.takeSomeFromQueue',
             'carbon.client:CarbonClientProtocol.sendDatapointsNow', 'carbon.client:CarbonClientFactory.checkQueue'],
    assumptions=_ASSUME + ['inductive step: queue length 0..5, MAX_DATAPOINTS_PER_MESSAGE any symbolic int >= 1']),
  H('C07_lost', quick=dict(timeout=280, shards=[('lost', 'not failed'), ('failed', 'failed')]), covers=['rerouted', 'kept'], replay='replay_lost',
    encodes=['carbon.client:CarbonClientFactory.clientConnectionLost', 'carbon.client:CarbonClientFactory.clientConnectionFailed',
             'carbon.client:CarbonClientFactory.destinationDown'],
    assumptions=_ASSUME + ['symbolic retry count and DYNAMIC_ROUTER_MAX_RETRIES (0..8), queue length 0..3']),
  H('C07_outage', quick=dict(timeout=280, shards=[('f%d' % k, 'fails == %d' % k) for k in range(4)]), covers=['recovered_after_down', 'reconnected'], replay='replay_outage',
    twin_pre=['fails >= 1'],
    encodes=['carbon.client:CarbonClientManager.sendDatapoint / getFactories / startClient', 'carbon.client:FakeClientFactory.reinjectDatapoints',
             'carbon.client:CarbonClientFactory.destinationUp / destinationDown / clientConnectionMade'],
    assumptions=_ASSUME + ['client manager with a dynamic router and one destination, DYNAMIC_ROUTER_MAX_RETRIES = 2; 0-2 arrivals before, during and after an outage of '
                           '0-3 failed attempts; metricGenerated wired to the manager as the relay pipeline does']),
  H('C07_stop', quick=dict(timeout=280, shards=[('n%d' % k, 'n == %d' % k) for k in range(6)]), covers=['stopped'], replay='replay_stop',
    twin_pre=['n <= 5'],
    encodes=['carbon.client:CarbonClientFactory.disconnect', 'carbon.client:CarbonClientManager.stopClient',
             'carbon.client:CarbonClientFactory.stopConnecting', 'carbon.client:CarbonClientProtocol.disconnect'],
    assumptions=_ASSUME + ['queue length 0..5, batch size 1..6, stop via the factory and via CarbonClientManager.stopClient; timers run to quiescence']),
  H('C07_progress', quick=dict(timeout=280, shards=[('e%d' % k, 'e0 == %d' % k) for k in range(6)]), covers=['quiesced'], replay='replay_progress',
    encodes=['carbon.client:CarbonClientFactory.scheduleSend', 'carbon.client:CarbonClientFactory.clientConnectionLost / clientConnectionFailed',
             'carbon.client:CarbonClientProtocol.connectionMade / sendQueued'],
    assumptions=_ASSUME + ['from a connected factory: two symbolic events out of {arrival, timer tick, connection lost and re-established, pause+resume, self-metric, '
                           'failed connect then re-established}, one more arrival, then every timer fires; unbounded symbolic thresholds and batch size']),
  H('C07_seq', quick=dict(timeout=280, shards=[('n%d_o%d_c%d' % (k, o, c), 'n == %d and o0 == %d and conn == %s' % (k, o, bool(c))) for k in (2, 3) for o in (0, 1, 2) for c in (0, 1)], extra_pre=['hard <= 2']),
    thorough=dict(timeout=900, shards=[('n%d_o%d_c%d' % (k, o, c), 'n == %d and o0 == %d and conn == %s' % (k, o, bool(c))) for k in (1, 2, 3, 4) for o in range(8) for c in (0, 1)]),
    covers=['ran'], replay='replay_seq', twin_pre=['n <= 2'],
    encodes=['carbon.client:CarbonClientFactory (whole)', 'carbon.client:CarbonClientProtocol (whole)'],
    assumptions=_ASSUME + ['event sequences of length <= 3 (quick, first event arrive/self-metric/connect) / <= 4 (thorough) over '
                           '{arrive, self-metric, connect, lose, pause, resume, tick, connect-failed} from an empty factory, disconnected or freshly connected, thresholds <= 3']),
]
