"""C06 — consistent hashing is stable, compatible and independent of membership history."""
import copy
import itertools

from vp_lib.api import H, cover, pick, boot_carbon
from ref import ring as REF

boot_carbon()
from carbon import routers, hashing  # noqa: E402

HASH_TYPES = ['carbon_ch', 'fnv1a_ch']


class _Settings(object):
  def __init__(self, hash_type):
    self.REPLICATION_FACTOR = 1
    self.DIVERSE_REPLICAS = False
    self.ROUTER_HASH_TYPE = hash_type


# ordered destination lists; fnv1a_ch hashes only the instance name, so equal instance names collide
# on every replica (lists 2 and 5), the others have distinct instance names
LISTS = [
  [('10.0.0.1', 2004, 'a')],
  [('10.0.0.1', 2004, 'a'), ('10.0.0.2', 2004, 'b')],
  [('10.0.0.1', 2004, 'a'), ('10.0.0.2', 2004, 'a')],
  [('10.20.30.9', 2004, 'c'), ('10.20.30.6', 2004, 'b'), ('10.20.30.3', 2004, 'a')],
  [('h1', 2004, 'a'), ('h1', 2104, 'b'), ('h2', 2004, 'c'), ('h2', 2104, 'd')],
  [('h1', 2004, 'a'), ('h2', 2004, 'a'), ('h3', 2004, 'a')],
  [('h%d' % i, 2004, 'i%d' % i) for i in range(6)],
  [('10.20.30.%d' % i, 2004, None) for i in (27, 21, 16, 9, 6, 3)],
  [('10.9.1.132', 2004, 'i382'), ('10.9.3.178', 2004, 'i928'), ('10.0.0.1', 2004, 'a')],   # replicas hashing to exactly 65535 (carbon_ch / fnv1a_ch)
]


def _build(dests, ht):
  r = routers.ConsistentHashingRouter(_Settings(HASH_TYPES[ht]))
  for d in dests:
    r.addDestination(d)
  return r


def _nodes(dests):
  return [(s, i) for (s, p, i) in dests]


ROUTERS, REFRINGS = {}, {}
for _c, _l in enumerate(LISTS):
  for _h in range(2):
    ROUTERS[(_c, _h)] = _build(_l, _h)
    REFRINGS[(_c, _h)] = REF.build(_nodes(_l), HASH_TYPES[_h])


def _lookup(ring, pos):
  ring.compute_ring_position = lambda key: pos
  try:
    return list(ring.get_nodes('k'))
  finally:
    del ring.compute_ring_position


def C06_compat_table(cfg: int, ht: int) -> bool:
  """
  pre: 0 <= cfg < len(LISTS)
  pre: 0 <= ht <= 1
  post: __return__
  """
  # the ring table built by carbon equals the published algorithm's, entry for entry
  cover('compared')
  c, h = pick(list(range(len(LISTS))), cfg), pick([0, 1], ht)
  ring = ROUTERS[(c, h)].ring
  for key in ('a.b.c', "('10.9.1.132', 'i382'):21", '75-i928', 'servers.x.cpu'):
    if ring.compute_ring_position(key) != REF.position(key, HASH_TYPES[h]):
      return False                      # ring position of a key differs from the published hash
  return ring.ring == REFRINGS[(c, h)]


def C06_compat_lookup(cfg: int, ht: int, pos: int) -> bool:
  """
  pre: 0 <= pos < 65536
  post: __return__
  """
  # for every ring position the preference order equals the published algorithm's
  got = _lookup(ROUTERS[(cfg, ht)].ring, pos)
  cover('walked')
  return got == REF.preference(REFRINGS[(cfg, ht)], pos)


def replay_compat_lookup(cfg, ht, pos):
  return _lookup(ROUTERS[(cfg, ht)].ring, pos) == REF.preference(REFRINGS[(cfg, ht)], pos)


# ---- minimal movement: add / remove one destination ----------------------------------------------------------
REMOVED = {}
for (_c, _h), _r in list(ROUTERS.items()):
  for _x in range(len(LISTS[_c])):
    _r2 = _build(LISTS[_c], _h)
    _r2.removeDestination(LISTS[_c][_x])
    REMOVED[(_c, _h, _x)] = _r2


def C06_minimal(cfg: int, ht: int, x: int, pos: int) -> bool:
  """
  pre: 0 <= pos < 65536
  post: __return__
  """
  # removing destination x (equivalently: adding it to the ring without it) changes every preference
  # order only by deleting (inserting) x: nothing moves between destinations that stayed
  full = _lookup(ROUTERS[(cfg, ht)].ring, pos)
  without = _lookup(REMOVED[(cfg, ht, x)].ring, pos)
  node = _nodes(LISTS[cfg])[x]
  cover('compared')
  return without == [n for n in full if n != node]


def replay_minimal(cfg, ht, x, pos):
  full = _lookup(ROUTERS[(cfg, ht)].ring, pos)
  without = _lookup(REMOVED[(cfg, ht, x)].ring, pos)
  return without == [n for n in full if n != _nodes(LISTS[cfg])[x]]


# ---- membership history ---------------------------------------------------------------------------------------
ALPHA = {3: [('10.20.30.1', 2004, 'a'), ('10.20.30.3', 2004, 'b'), ('10.20.30.2', 2004, 'b')],   # collide on 48962 with a third node's entry next: a stale bump changes routing at ONE position
         2: [('10.20.30.3', 2004, 'a'), ('10.20.30.7', 2004, 'b'), ('10.20.30.13', 2004, 'b')],   # two nodes collide on one carbon_ch position (57808)
         0: [('h1', 2004, 'a'), ('h2', 2004, 'b'), ('h3', 2004, 'c')],          # distinct instance names
         1: [('h1', 2004, 'a'), ('h2', 2004, 'a'), ('h3', 2004, 'a')]}          # equal names: fnv1a_ch collides on every replica


def _histories(maxlen):
  """All valid add/remove sequences (op = +i / -(i+1)) over 3 nodes starting from the full ring."""
  out = []
  ops = [1, 2, 3, -1, -2, -3]
  for n in range(1, maxlen + 1):
    for seq in itertools.product(ops, repeat=n):
      live = [0, 1, 2]
      ok = True
      for op in seq:
        i = abs(op) - 1
        if op > 0 and i not in live:
          live.append(i)
        elif op < 0 and i in live:
          live.remove(i)
        else:
          ok = False
          break
      if ok and live:
        out.append((seq, tuple(live)))
  return out


HISTORIES = _histories(3)
_HRINGS = {}


def _history_ring(alpha, ht, hi):
  key = (alpha, ht, hi)
  if key not in _HRINGS:
    seq, live = HISTORIES[hi]
    r = _build(ALPHA[alpha], ht)
    for op in seq:
      d = ALPHA[alpha][abs(op) - 1]
      if op > 0:
        r.addDestination(d)
      else:
        r.removeDestination(d)
    fresh = _build([ALPHA[alpha][i] for i in live], ht)        # freshly started relay, same live destinations, current join order
    _HRINGS[key] = (r, fresh)
  return _HRINGS[key]


for _a in (0, 1, 2, 3):
  for _h in (0, 1):
    for _i in range(len(HISTORIES)):
      _history_ring(_a, _h, _i)


def C06_history(alpha: int, ht: int, hi: int, pos: int) -> bool:
  """
  pre: 0 <= pos < 65536
  post: __return__
  """
  r, fresh = _history_ring(alpha, ht, hi)
  if r.ring.ring == fresh.ring.ring and r.ring.nodes == fresh.ring.nodes:
    cover('same_table')          # identical ring tables: lookups are the same function of the same table
    return True
  cover('compared')
  return _lookup(r.ring, pos) == _lookup(fresh.ring, pos)


def replay_history(alpha, ht, hi, pos):
  r, fresh = _history_ring(alpha, ht, hi)
  return _lookup(r.ring, pos) == _lookup(fresh.ring, pos)


def C06_history_table(alpha: int, ht: int, hi: int) -> bool:
  """
  pre: 0 <= alpha <= 3 and 0 <= ht <= 1
  pre: 0 <= hi < len(HISTORIES)
  post: __return__
  """
  a, h, i = pick([0, 1, 2, 3], alpha), pick([0, 1], ht), pick(list(range(len(HISTORIES))), hi)
  r, fresh = _history_ring(a, h, i)
  cover('compared')
  # membership bookkeeping equals the fresh relay's; ring tables are compared position-wise by C06_history
  return (sorted(r.instance_ports.items()) == sorted(fresh.instance_ports.items()) and r.ring.nodes == fresh.ring.nodes
          and r.ring.nodes_len == fresh.ring.nodes_len and r.ring.ring_len == len(r.ring.ring) == fresh.ring.ring_len)


def _pos_shards(ring, per):
  positions = sorted(set(p for p, _ in ring))
  cuts = [0] + [positions[i] + 1 for i in range(per - 1, len(positions) - 1, per)] + [65536]
  cuts = sorted(set(min(x, 65536) for x in cuts))
  return [(cuts[k], cuts[k + 1]) for k in range(len(cuts) - 1)]


def _compat_shards(cfgs, per):
  out = []
  for c in cfgs:
    for h in (0, 1):
      for k, (lo, hi) in enumerate(_pos_shards(ROUTERS[(c, h)].ring.ring, per)):
        out.append(('c%d_%s_%d' % (c, HASH_TYPES[h], k), 'cfg == %d and ht == %d and %d <= pos < %d' % (c, h, lo, hi)))
  return out


def _minimal_shards(cfgs, per):
  out = []
  for c in cfgs:
    for h in (0, 1):
      for x in range(len(LISTS[c])):
        for k, (lo, hi) in enumerate(_pos_shards(ROUTERS[(c, h)].ring.ring, per)):
          out.append(('c%d_%s_x%d_%d' % (c, HASH_TYPES[h], x, k),
                      'cfg == %d and ht == %d and x == %d and %d <= pos < %d' % (c, h, x, lo, hi)))
  return out


def _history_shards(alphas, hts, his, per=60):
  out = []
  for a in alphas:
    for h in hts:
      for i in his:
        r, fresh = _history_ring(a, h, i)
        if r.ring.ring == fresh.ring.ring:
          out.append(('a%d_%s_h%d' % (a, HASH_TYPES[h], i), 'alpha == %d and ht == %d and hi == %d' % (a, h, i)))
          continue
        for k, (lo, hi) in enumerate(_pos_shards(r.ring.ring + fresh.ring.ring, per)):
          out.append(('a%d_%s_h%d_%d' % (a, HASH_TYPES[h], i, k),
                      'alpha == %d and ht == %d and hi == %d and %d <= pos < %d' % (a, h, i, lo, hi)))
  return out


_QUICK_H = [i for i, (seq, live) in enumerate(HISTORIES) if len(seq) <= 2]
_ASSUME = ['md5 / fnv digests concretised: ring tables are built by the real add_node / remove_node at import time; the key position is a symbolic int over all of [0, 65536)',
           'reference = /verif/ref/ring.py, written from the published algorithm; destination lists: fixed family incl. lists whose replica keys all collide under fnv1a_ch']

HARNESSES = [
  H('C06_compat_table', quick=dict(timeout=120), covers=['compared'],
    encodes=['carbon.hashing:ConsistentHashRing.add_node', 'carbon.hashing:carbonHash', 'carbon.hashing:fnv32a'],
    assumptions=_ASSUME),
  H('C06_compat_lookup', quick=dict(timeout=280, shards=_compat_shards([1, 2, 3], 60)), thorough=dict(timeout=900, shards=_compat_shards(list(range(len(LISTS))), 80)),
    covers=['walked'], replay='replay_compat_lookup',
    encodes=['carbon.hashing:ConsistentHashRing.get_nodes'], assumptions=_ASSUME),
  H('C06_minimal', quick=dict(timeout=280, shards=_minimal_shards([2, 3], 100)), thorough=dict(timeout=900, shards=_minimal_shards([1, 2, 3, 4, 5], 100)),
    covers=['compared'], replay='replay_minimal',
    encodes=['carbon.hashing:ConsistentHashRing.remove_node', 'carbon.hashing:ConsistentHashRing.add_node', 'carbon.hashing:ConsistentHashRing.get_nodes',
             'carbon.routers:ConsistentHashingRouter.removeDestination'],
    assumptions=_ASSUME),
  H('C06_history', quick=dict(timeout=280, shards=_history_shards([0], [0, 1], _QUICK_H) + _history_shards([2, 3], [0], range(len(HISTORIES)))),
    thorough=dict(timeout=900, shards=_history_shards([0], [0, 1], range(len(HISTORIES))) + _history_shards([1, 2, 3], [0], range(len(HISTORIES)))),
    covers=['same_table'], replay='replay_history',
    encodes=['carbon.routers:ConsistentHashingRouter.addDestination / removeDestination', 'carbon.hashing:ConsistentHashRing.add_node / remove_node / get_nodes'],
    assumptions=_ASSUME + ['%d valid add/remove histories of length <= 3 over 3 destinations starting from the full ring (quick: the first 8 of length <= 2), '
                           'compared with a fresh ring of the live destinations in their current join order' % len(HISTORIES)]),
  H('C06_history_table', quick=dict(timeout=200), covers=['compared'],
    encodes=['carbon.routers:ConsistentHashingRouter.addDestination / removeDestination (bookkeeping)'], assumptions=_ASSUME),
]
