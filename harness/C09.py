"""C09 — back-pressure always lets go: paused receivers are resumed once buffers drain."""
import ast
import os

from vp_lib.api import H, cover, REPO
from vp_lib import clientlab as L
from vp_lib import cachelab as K
from vp_lib.carbonenv import make_receiver, drop_receiver, quiet
from vp_lib.cachelab import sset

import carbon.protocols as protocols  # noqa: E402
from twisted.python.failure import Failure  # noqa: E402
from twisted.internet.error import ConnectionDone  # noqa: E402
from carbon import state, events  # noqa: E402

quiet(protocols)


def _relay_quiesce(mod, k, low, mx, hard, batch, lose_at, reconnect, hp_at):
  """k arrivals at a connected destination, timers run to quiescence (optionally a connection loss
  and re-establishment in between).  At quiescence: receivers paused => the queue is still at or
  above its low watermark (or the destination is not connected, so it cannot drain)."""
  clock = L.configure(mod, low, mx, hard, batch)
  with L.Wiring():
    f = L.make_factory(mod)
    proto, t, batches = L.connect(f)
    for i in range(k):
      if i == lose_at:
        L.lose(f, proto)
        proto = None
        if reconnect:
          proto, t, batches = L.connect(f)
      if i == hp_at:
        f.sendHighPriorityDatapoint('carbon.self', (i, i))
      f.sendDatapoint('m', (i, i))
    quiet_now = L.drain_clock(clock)
    paused = state.metricReceiversPaused
    qlen = len(f.queue)
    connected = f.connectedProtocol is not None
  if not quiet_now:
    raise AssertionError('timers never quiesce')
  if paused:
    cover('paused_at_quiescence')
  else:
    cover('flowing')
  if paused and connected and qlen < low:
    raise AssertionError('quiescent, receivers paused, queue %d below its low watermark' % qlen)
  if connected and qlen != 0:
    raise AssertionError('connected and quiescent but %d datapoints still queued' % qlen)
  return True


def C09_relay_quiesce(k: int, low: int, mx: int, hard: int, batch: int, lose_at: int, reconnect: bool, hp_at: int) -> bool:
  """
  pre: 0 <= k <= 4
  pre: 1 <= low <= mx <= hard
  pre: batch >= 1
  pre: -1 <= lose_at <= 3
  pre: -1 <= hp_at <= 3
  post: __return__
  """
  return _relay_quiesce(L.SHADOW, k, low, mx, hard, batch, lose_at, reconnect, hp_at)


def replay_relay_quiesce(k, low, mx, hard, batch, lose_at, reconnect, hp_at):
  return _relay_quiesce(L.real_client, k, low, mx, hard, batch, lose_at, reconnect, hp_at)


def _relay_repeat(mod, low, mx, hard, batch, rounds, partial=0, relose=False):
  """Pause/resume must re-arm: fill to MAX, drain to quiescence, `rounds` times over.  Optionally the
  connection is lost and re-established after `partial` batches of the drain have gone out."""
  clock = L.configure(mod, low, mx, hard, batch)
  with L.Wiring():
    f = L.make_factory(mod)
    proto, t, batches = L.connect(f)
    for r in range(rounds):
      proto.pauseProducing()                 # destination not reading: the queue builds up
      n = 0
      while not state.metricReceiversPaused and n < 6:
        f.sendDatapoint('m', (n, r))
        n += 1
      if not state.metricReceiversPaused:
        return True                          # MAX beyond the harness' reach (bounded fill)
      cover('paused')
      proto.resumeProducing()
      if relose:
        for _ in range(partial):
          clock.advance(0.00011)             # one deferred send at a time
        cover('reconnected_mid_drain')
        L.lose(f, proto)
        proto, t, batches = L.connect(f)
      L.drain_clock(clock)
      if state.metricReceiversPaused:
        raise AssertionError('round %d: drained to %d (< low watermark) but receivers still paused' % (r, len(f.queue)))
  return True


def C09_relay_repeat(low: int, mx: int, hard: int, batch: int, rounds: int, partial: int, relose: bool) -> bool:
  """
  pre: 1 <= low <= mx <= hard
  pre: mx <= 5
  pre: batch >= 1
  pre: 1 <= rounds <= 3
  pre: 0 <= partial <= 3
  pre: relose or partial == 0
  post: __return__
  """
  return _relay_repeat(L.SHADOW, low, mx, hard, batch, rounds, partial, relose)


def replay_relay_repeat(low, mx, hard, batch, rounds, partial, relose):
  return _relay_repeat(L.real_client, low, mx, hard, batch, rounds, partial, relose)


DEST_B = ('10.0.0.2', 2004, 'a')


def _relay_two(mod, mx, low, hard, batch, lost, retries, maxr, dynamic):
  """Two destinations behind a manager; both fill up (receivers paused); one connection is lost
  (a dynamic router may remove it and re-route its queue); everything that can drain drains."""
  clock = L.configure(mod, low, mx, hard, batch, dynamic=dynamic, max_retries=maxr)
  router = L.StubRouter([L.DEST, DEST_B])
  with L.Wiring():
    mgr = mod.CarbonClientManager(router)
    old_cm = state.client_manager
    state.client_manager = mgr
    reinject = lambda metric, datapoint: mgr.sendDatapoint(metric, datapoint)
    events.metricGenerated.addHandler(reinject)
    try:
      facs = []
      for d in (L.DEST, DEST_B):
        f = L.make_factory(mod, router=router, dest=d)
        mgr.client_factories[d] = f
        mgr.pooled_factories[d[0:2]].add(f)
        proto, t, batches = L.connect(f)
        proto.pauseProducing()
        facs.append((f, proto))
      n = 0
      while not state.metricReceiversPaused and n < 8:
        mgr.sendDatapoint('m', (n, n))
        n += 1
      if not state.metricReceiversPaused:
        return True
      cover('paused')
      f, proto = facs[lost]
      f.retries = retries
      L.lose(f, proto)
      for (g, p) in facs:
        if g.connectedProtocol is not None:
          p.resumeProducing()
      L.drain_clock(clock)
      stuck = [len(g.queue) for (g, p) in facs if g.connectedProtocol is not None and router.hasDestination(g.destination)]
      paused = state.metricReceiversPaused
      below = all(len(g.queue) < low for (g, p) in facs if router.hasDestination(g.destination))
      removed = not router.hasDestination(f.destination)
    finally:
      events.metricGenerated.removeHandler(reinject)
      state.client_manager = old_cm
  if any(stuck):
    raise AssertionError('a connected destination did not drain')
  if removed:
    cover('removed')
  if paused and below and removed:
    raise AssertionError('quiescent, every remaining queue below its watermark, receivers still paused')
  return True


def C09_relay_two(mx: int, low: int, hard: int, batch: int, lost: int, retries: int, maxr: int, dynamic: bool) -> bool:
  """
  pre: 1 <= low <= mx <= hard
  pre: mx <= 3 and hard <= 4
  pre: batch >= 1
  pre: 0 <= lost <= 1
  pre: 0 <= retries <= 3 and 1 <= maxr <= 3
  post: __return__
  """
  return _relay_two(L.SHADOW, mx, low, hard, batch, lost, retries, maxr, dynamic)


def replay_relay_two(mx, low, hard, batch, lost, retries, maxr, dynamic):
  return _relay_two(L.real_client, mx, low, hard, batch, lost, retries, maxr, dynamic)


def _cache_cycle(mod, strat, maxsize, pattern, rounds):
  """Cache side, sequential: store until receivers get paused, let the writer drain the cache
  completely (writer idle), expect receivers resumed; repeat (the flags must re-arm)."""
  with L.Wiring():
    cache = K.build(mod, strat, [False] * 4, [0] * 4, 0)
    K.apply_limits(maxsize, True)
    for r in range(rounds):
      n = 0
      while not state.metricReceiversPaused and n < 8:
        m = K.METRICS[(pattern >> (n % 4)) & 1]
        cache.store(m, (100 * r + n, n))
        n += 1
      if not state.metricReceiversPaused:
        return True
      cover('paused')
      for _ in range(4):
        metric, dps = cache.drain_metric()
        if metric is None:
          break
      if len(cache) != 0 and cache.size != 0:
        raise AssertionError('cache not drained')
      if state.metricReceiversPaused:
        raise AssertionError('round %d: cache empty (size %d) but receivers still paused' % (r, cache.size))
  return True


def C09_cache_cycle(strat: int, maxsize: int, pattern: int, rounds: int) -> bool:
  """
  pre: 0 <= strat <= 6
  pre: 1 <= maxsize <= 6
  pre: 0 <= pattern <= 15
  pre: 1 <= rounds <= 2
  post: __return__
  """
  return _cache_cycle(K.SHADOW, strat, maxsize, pattern, rounds)


def replay_cache_cycle(strat, maxsize, pattern, rounds):
  return _cache_cycle(K.real_cache, strat, maxsize, pattern, rounds)


def _cache_step(mod, strat, b0, b1, b2, b3, ghost, maxsize, toofull):
  """Inductive step of the resume side: arbitrary cache, arbitrary `cacheTooFull` flag, one drain.
  Afterwards: flag still set => size is still at or above the low watermark."""
  with L.Wiring():
    cache = K.build(mod, strat, [b0, b1, b2, b3], [1, 2, 3, 4], ghost)
    K.apply_limits(maxsize, True)
    state.cacheTooFull = toofull
    state.metricReceiversPaused = toofull
    low = K.settings['CACHE_SIZE_LOW_WATERMARK']
    metric, dps = cache.drain_metric()
    if metric is None:
      return True
    cover('drained')
    if state.metricReceiversPaused and cache.size < low:
      raise AssertionError('size %d below the low watermark after a drain but receivers still paused' % cache.size)
    if (not toofull) and state.metricReceiversPaused:
      raise AssertionError('a drain paused the receivers')
  return True


def C09_cache_step(strat: int, b0: bool, b1: bool, b2: bool, b3: bool, ghost: int, maxsize: int, toofull: bool) -> bool:
  """
  pre: 0 <= strat <= 6
  pre: ghost >= 0
  pre: maxsize >= 1
  post: __return__
  """
  return _cache_step(K.SHADOW, strat, b0, b1, b2, b3, ghost, maxsize, toofull)


def replay_cache_step(strat, b0, b1, b2, b3, ghost, maxsize, toofull):
  return _cache_step(K.real_cache, strat, b0, b1, b2, b3, ghost, maxsize, toofull)


def C09_connect_paused(paused: bool, flow: bool, which: int) -> bool:
  """
  pre: 0 <= which <= 1
  post: __return__
  """
  # a connection made while paused is paused too, and is resumed (and later paused) with the rest
  cls = protocols.MetricLineReceiver if which == 0 else protocols.MetricPickleReceiver
  sset('USE_FLOW_CONTROL', flow)
  state.metricReceiversPaused = paused
  p = make_receiver(cls)
  try:
    t = p.transport
    if (t.paused == 1) != paused:
      raise AssertionError('connection made while paused=%s: transport paused %d times' % (paused, t.paused))
    events.resumeReceivingMetrics()
    if flow and t.resumed != 1:
      raise AssertionError('not resumed with the rest')
    events.pauseReceivingMetrics()
    if flow and t.paused != (2 if paused else 1):
      raise AssertionError('not paused with the rest')
    cover('connected')
    state.connectedMetricReceiverProtocols.add(p)
    p.connectionLost(Failure(ConnectionDone()))
    before = (t.paused, t.resumed)
    events.resumeReceivingMetrics()
    events.pauseReceivingMetrics()
    if (t.paused, t.resumed) != before:
      raise AssertionError('closed connection still subscribed')
  finally:
    drop_receiver(p)
    state.metricReceiversPaused = False
    sset('USE_FLOW_CONTROL', False)
  return True


def C09_wiring() -> bool:
  """
  post: __return__
  """
  # carbon.service cannot be imported here (txAMQP is py2-only): check in its SOURCE that every
  # processor set-up still wires cacheFull -> pause and cacheSpaceAvailable -> resume under flow control.
  with open(os.path.join(REPO, 'lib', 'carbon', 'service.py')) as fh:
    tree = ast.parse(fh.read())
  need = {'setupAggregatorProcessor', 'setupRewriterProcessor', 'setupRelayProcessor', 'setupWriterProcessor'}
  ok = set()
  for fn in tree.body:
    if isinstance(fn, ast.FunctionDef) and fn.name in need:
      src = ast.unparse(fn)
      if ('events.cacheFull.addHandler(events.pauseReceivingMetrics)' in src
          and 'events.cacheSpaceAvailable.addHandler(events.resumeReceivingMetrics)' in src
          and 'if settings.USE_FLOW_CONTROL' in src):
        ok.add(fn.name)
  return ok == need


_S = [('s%d_%s' % (i, n or 'none'), 'strat == %d' % i) for i, n in enumerate(K.STRATEGY_NAMES)]
_ASSUME = ['cacheFull -> pauseReceivingMetrics and cacheSpaceAvailable -> resumeReceivingMetrics wired by hand as service.py does (C09_wiring checks the source)',
           'quiescence = all timers of the virtual reactor fired / the cache drained until drain_metric() returns nothing',
           'carbon.client and carbon.cache executed as message-stripped shadow modules; replay on the real modules',
           'limits: independent symbolic ints low <= MAX <= hard (relay); MAX_CACHE_SIZE symbolic with conf.py\'s derivation on exact rationals (cache)']

HARNESSES = [
  H('C09_relay_quiesce', quick=dict(timeout=280, shards=[('k%d' % k, 'k == %d' % k) for k in range(5)], extra_pre=['hp_at == -1 or lose_at == -1']),
    thorough=dict(timeout=1200, shards=[('k%d' % k, 'k == %d' % k) for k in range(5)]),
    covers=['paused_at_quiescence', 'flowing'], replay='replay_relay_quiesce', twin_pre=['k <= 4'],
    encodes=['carbon.client:CarbonClientProtocol.sendQueued', 'carbon.client:CarbonClientFactory.sendDatapoint',
             'carbon.client:CarbonClientFactory.queueFullCallback', 'carbon.client:CarbonClientFactory.queueSpaceCallback',
             'carbon.events (pause/resume chain)'],
    assumptions=_ASSUME + ['one destination, 0..4 arrivals, optional connection loss / re-establishment and self-metric at a symbolic position']),
  H('C09_relay_repeat', quick=dict(timeout=280, shards=[('r%d_l0' % r, 'rounds == %d and not relose' % r) for r in (1, 2)] + [('r1_l1_p%d' % q, 'rounds == 1 and relose and partial == %d and batch <= 3 and hard <= 6' % q) for q in range(4)]),
    thorough=dict(timeout=900, shards=[('r%d_l%d' % (r, l), 'rounds == %d and relose == %s' % (r, bool(l))) for r in (1, 2, 3) for l in (0, 1)]), covers=['paused', 'reconnected_mid_drain'], replay='replay_relay_repeat',
    twin_pre=['relose'],
    encodes=['carbon.client:CarbonClientFactory.queueSpaceCallback (re-arming of queueFull / queueHasSpace)'],
    assumptions=_ASSUME + ['MAX_QUEUE_SIZE <= 5 so that the bounded fill reaches it; 1-2 (quick) / 3 (thorough) pause-resume rounds; optionally the connection is lost and re-established after 0-3 batches of the drain']),
  H('C09_relay_two', quick=dict(timeout=280, shards=[('dyn', 'dynamic'), ('static', 'not dynamic')]), covers=['paused', 'removed'],
    replay='replay_relay_two', twin_pre=['dynamic'],
    encodes=['carbon.client:CarbonClientManager.sendDatapoint', 'carbon.client:CarbonClientFactory.destinationDown',
             'carbon.client:CarbonClientFactory.queueSpaceCallback', 'carbon.client:CarbonClientProtocol.sendQueued'],
    assumptions=_ASSUME + ['two destinations behind the real CarbonClientManager, both filled until receivers pause, one connection lost with symbolic retry count, '
                           'events.metricGenerated wired back to the manager (what the relay pipeline does)']),
  H('C09_cache_cycle', quick=dict(timeout=280, shards=_S, extra_pre=['maxsize <= 4', 'rounds == 2']), thorough=dict(timeout=900, shards=_S),
    covers=['paused'], replay='replay_cache_cycle',
    encodes=['carbon.cache:_MetricCache.store (cacheFull)', 'carbon.cache:_MetricCache.pop', 'carbon.cache:_MetricCache._check_available_space'],
    assumptions=_ASSUME + ['sequential histories: fill until paused, drain completely, twice; MAX_CACHE_SIZE 1..4 (quick) / 6']),
  H('C09_cache_step', quick=dict(timeout=280, shards=_S), covers=['drained'], replay='replay_cache_step',
    encodes=['carbon.cache:_MetricCache.pop', 'carbon.cache:_MetricCache._check_available_space', 'carbon.cache:_MetricCache.drain_metric'],
    assumptions=_ASSUME + ['inductive step from a symbolic cache (see C02) with unbounded symbolic MAX_CACHE_SIZE and ghost size, arbitrary cacheTooFull flag']),
  H('C09_connect_paused', quick=dict(timeout=120), covers=['connected'],
    encodes=['carbon.protocols:MetricReceiver.connectionMade', 'carbon.protocols:MetricReceiver.connectionLost',
             'carbon.protocols:MetricReceiver.pauseReceiving', 'carbon.protocols:MetricReceiver.resumeReceiving']),
  H('C09_wiring', quick=dict(timeout=60), encodes=['carbon.service:setup*Processor (source check, not solver-decided; an assumption of the other harnesses)']),
]


# ---- cache side, interleavings around the fullness checks ---------------------------------------------------------------
from vp_lib import racelab as R  # noqa: E402


def _cache_race_setup(b0, b2, mi, ti, v, p1, n, p2):
  stores = [(K.METRICS[mi], K.STAMPS[ti], v)]
  plan = [('W', p1), ('R', n)] + ([('W', p2)] if p2 else [])
  return [b0, False, b2, False], stores, plan


def _cache_race_verdict(out):
  if out.errors:
    return None
  # the writer went on until a drain returned nothing: if the cache is now below its low watermark the
  # receivers must not be left paused (nothing further would ever resume them)
  low = K.settings['CACHE_SIZE_LOW_WATERMARK']
  idle = bool(out.drains) and out.drains[-1][0] is None
  if idle and out.paused_at_end and out.cache.size < low:
    return 'writer idle, cache size %r below the low watermark, receivers still paused' % (out.cache.size,)
  return None


def C09_cache_race(strat: int, b0: bool, b2: bool, maxsize: int, mi: int, ti: int, v: int, p1: int, n: int, p2: int) -> bool:
  """
  pre: 0 <= strat <= 6
  pre: 1 <= maxsize <= 3
  pre: int(b0) + int(b2) <= maxsize
  pre: 0 <= mi <= 2 and 0 <= ti <= 2
  pre: 0 <= p1 <= 40 and 0 <= n <= 14 and 0 <= p2 <= 10
  post: __return__
  """
  bits, stores, plan = _cache_race_setup(b0, b2, mi, ti, v, p1, n, p2)
  out = R.symbolic_run(strat, bits, 1, stores, 4, plan, maxsize=maxsize, flow=True, wire=True)
  if [t for t in out.trace if t[0] == 'R'] and [t for t in out.trace if t[0] == 'W']:
    cover('interleaved')
  if out.paused_at_end:
    cover('paused_at_end')
  problem = _cache_race_verdict(out)
  if problem:
    raise AssertionError(problem)
  return True


def replay_cache_race(strat, b0, b2, maxsize, mi, ti, v, p1, n, p2):
  bits, stores, plan = _cache_race_setup(b0, b2, mi, ti, v, p1, n, p2)
  sym = R.symbolic_run(strat, bits, 1, stores, 4, plan, maxsize=maxsize, flow=True, wire=True)
  out = R.real_run(strat, bits, 1, stores, 4, sym.trace, maxsize=maxsize, flow=True, wire=True)
  if out.replay_problems and not out.errors:
    raise RuntimeError('schedule could not be enforced on real threads: %r' % (out.replay_problems,))
  return _cache_race_verdict(out) is None


_RQ9 = ([('s%d_%s_other' % (i, K.STRATEGY_NAMES[i] or 'none'), 'strat == %d and mi == 2 and ti == 0' % i) for i in (0, 3, 6)] +
        [('s%d_%s_same' % (i, K.STRATEGY_NAMES[i] or 'none'), 'strat == %d and mi == 0 and ti == 2 and n >= 8' % i) for i in (0, 3, 6)])
_RS9 = [('s%d_%s_m%d' % (i, n or 'none', m), 'strat == %d and mi == %d' % (i, m)) for i, n in enumerate(K.STRATEGY_NAMES) for m in range(3)]
HARNESSES.append(
  H('C09_cache_race', quick=dict(timeout=280, shards=_RQ9, extra_pre=['p2 == 0', 'maxsize == 1', 'b0 and not b2']),
    thorough=dict(timeout=900, shards=_RS9, extra_pre=['p2 in (0, 4)', 'maxsize <= 2', 'ti != 1']),
    covers=['interleaved'], replay='replay_cache_race', twin_pre=['strat == 0 and mi == 2'],
    encodes=['carbon.cache:_MetricCache.store (cacheFull under the lock)', 'carbon.cache:_MetricCache.pop', 'carbon.cache:_MetricCache._check_available_space',
             'carbon.events cacheFull/cacheSpaceAvailable -> pause/resume chain'],
    assumptions=_ASSUME + ['schedules: the writer (drains until the cache is empty) runs p1 statements, the receiver (one store that reaches MAX_CACHE_SIZE) runs n statements or until blocked, '
                           '[thorough: writer p2 more], then both to completion; event handlers run atomically inside the statement that fires them',
                           'counterexamples replayed on real OS threads running the real carbon.cache']))
