"""C18 — tagged series names normalise to one canonical form."""
from vp_lib.api import H, cover, boot_carbon
from vp_lib.shadow import shadow, shadow_module

boot_carbon()
import carbon.util as cutil  # noqa: E402
import carbon.cache as real_cache  # noqa: E402
import carbon.client as real_client  # noqa: E402
from carbon.conf import settings  # noqa: E402
from carbon import state  # noqa: E402

TS = shadow(cutil.TaggedSeries)                 # error-message formatting removed
CACHE = shadow_module(real_cache)
CACHE.TaggedSeries = TS
CLIENT = shadow_module(real_client)
CLIENT.TaggedSeries = TS
RESERVED = ';!^='


def normalise(ts, x):
  """What the pipeline does: the parsed path, or the name as received when the parser rejects it."""
  try:
    return ts.parse(x).path, True
  except Exception:
    return x, False


def _plain(s):
  """Component free of every character with a syntactic role in either spelling."""
  for c in s:
    if c in ';!^=~{}",\\':
      return False
  return True


def _rules_ok(ts, x):
  """Accepted names satisfy the documented tag rules."""
  tags = ts.parse(x).tags
  for k, v in tags.items():
    if len(k) == 0 or len(v) == 0:
      return False
    for c in RESERVED:
      if c in k:
        return False
    if ';' in v or v[0] == '~':
      return False
  return True


def _check_any(ts, x):
  n1, ok1 = normalise(ts, x)
  n2, ok2 = normalise(ts, n1)
  if ok1:
    cover('accepted')
    if not (n1 == n2):       # operand order matters to CrossHair's sequence model (see DESIGN.md 2.5)
      raise AssertionError('not idempotent')
    if not _rules_ok(ts, x):
      raise AssertionError('accepted name violates the tag rules')
  else:
    cover('rejected')
    if not (x == n1):
      raise AssertionError('rejected name altered')
  return True


def C18_any(x: str) -> bool:
  """
  pre: len(x) <= 6
  post: __return__
  """
  return _check_any(TS, x)


def replay_any(x):
  return _check_any(cutil.TaggedSeries, x)


def _carbon(ts, name, t1, v1, t2, v2, two):
  x = name + ';' + t1 + '=' + v1 + ((';' + t2 + '=' + v2) if two else '')
  _check_any(ts, x)
  n1, ok1 = normalise(ts, x)
  if two and _plain(name) and _plain(t1) and _plain(v1) and _plain(t2) and _plain(v2) and t1 != t2:
    swapped = name + ';' + t2 + '=' + v2 + ';' + t1 + '=' + v1
    n2, ok2 = normalise(ts, swapped)
    cover('permuted')
    if ok1 != ok2 or (ok1 and not (n1 == n2)):
      raise AssertionError('depends on tag order')
  return True


COMP2 = ['a', 'A', 'a!', 'b', 'name', 'x.y', '', ';', '=', '~x', 'a=b', '!', 'é ', '{"}', 'ab', 'x^y']


def C18_carbon(ni: int, t1i: int, v1i: int, t2i: int, v2i: int, two: bool) -> bool:
  """
  pre: 0 <= ni < len(COMP2) and 0 <= t1i < len(COMP2) and 0 <= v1i < len(COMP2) and 0 <= t2i < len(COMP2) and 0 <= v2i < len(COMP2)
  pre: two or (t2i == 0 and v2i == 0)
  post: __return__
  """
  from vp_lib.api import pick
  return _carbon(cutil.TaggedSeries, pick(COMP2, ni), pick(COMP2, t1i), pick(COMP2, v1i), pick(COMP2, t2i), pick(COMP2, v2i), two)


def replay_carbon(ni, t1i, v1i, t2i, v2i, two):
  return _carbon(cutil.TaggedSeries, COMP2[ni], COMP2[t1i], COMP2[v1i], COMP2[t2i], COMP2[v2i], two)


def _syntax(ts, name, t1, v1, t2, v2, two, named):
  """Both spellings of the same tag set (plain components): same canonical form; order-independent."""
  k1 = 'name' if named else t1
  carbon = name + ';' + k1 + '=' + v1 + ((';' + t2 + '=' + v2) if two else '')
  openm = name + '{' + k1 + '="' + v1 + '"' + ((',' + t2 + '="' + v2 + '"') if two else '') + '}'
  openm_swapped = name + '{' + ((t2 + '="' + v2 + '",') if two else '') + k1 + '="' + v1 + '"}'
  a, oka = normalise(ts, carbon)
  b, okb = normalise(ts, openm)
  c, okc = normalise(ts, openm_swapped)
  cover('both')
  if oka != okb or okb != okc:
    raise AssertionError('one spelling accepted, the other rejected')
  if oka and (not (a == b) or not (b == c)):
    raise AssertionError('canonical form depends on syntax or order: %r %r %r' % (a, b, c))
  for n in (a, b):
    if oka and not (n == normalise(ts, n)[0]):
      raise AssertionError('not idempotent')
  return True


COMP = ['a', 'b', 'name', 'x.y', 'é', 'A', 'a b', 'v~', '0', "it's", 'ab', 'B']


def C18_syntax(ni: int, t1i: int, v1i: int, t2i: int, v2i: int, two: bool, named: bool) -> bool:
  """
  pre: 0 <= ni < len(COMP) and 0 <= t1i < len(COMP) and 0 <= v1i < len(COMP) and 0 <= t2i < len(COMP) and 0 <= v2i < len(COMP)
  pre: t1i != t2i and t2i != 2 and t1i != 2
  pre: two or (t2i == 0 and v2i == 0)
  post: __return__
  """
  from vp_lib.api import pick
  return _syntax(cutil.TaggedSeries, pick(COMP, ni), pick(COMP, t1i), pick(COMP, v1i), pick(COMP, t2i), pick(COMP, v2i), two, named)


def replay_syntax(ni, t1i, v1i, t2i, v2i, two, named):
  return _syntax(cutil.TaggedSeries, COMP[ni], COMP[t1i], COMP[v1i], COMP[t2i], COMP[v2i], two, named)


def _mixed(ts, n, t1, v1, t2, v2, order):
  x = (n + ';' + t1 + '=' + v1 + '{' + t2 + '="' + v2 + '"}') if order else (n + '{' + t2 + '="' + v2 + '"};' + t1 + '=' + v1)
  return _check_any(ts, x)


def C18_mixed(n: str, t1: str, v1: str, t2: str, v2: str, order: bool) -> bool:
  """
  pre: len(n) == 1 and len(t1) == 1 and len(v1) == 1 and len(t2) == 1 and len(v2) == 1
  post: __return__
  """
  return _mixed(TS, n, t1, v1, t2, v2, order)


def replay_mixed(n, t1, v1, t2, v2, order):
  return _mixed(cutil.TaggedSeries, n, t1, v1, t2, v2, order)


class _RecCache(object):
  def __init__(self):
    self.stored = []

  def store(self, metric, datapoint):
    self.stored.append(metric)


class _RecManager(object):
  def __init__(self):
    self.sent = []

  def sendDatapoint(self, metric, datapoint):
    self.sent.append(metric)


def _processors(cache_mod, client_mod, ts, x, relay_norm):
  """Rejected names are stored and relayed exactly as received; accepted ones in canonical form."""
  want, ok = normalise(ts, x)
  proc = cache_mod.CacheFeedingProcessor.__new__(cache_mod.CacheFeedingProcessor)
  proc.cache = _RecCache()
  proc.process(x, (1, 2))
  old_cm, old_set = state.client_manager, settings.get('TAG_RELAY_NORMALIZED', False)
  state.client_manager = _RecManager()
  settings['TAG_RELAY_NORMALIZED'] = relay_norm
  try:
    rp = client_mod.RelayProcessor.__new__(client_mod.RelayProcessor)
    rp.process(x, (1, 2))
    sent = state.client_manager.sent
  finally:
    state.client_manager = old_cm
    settings['TAG_RELAY_NORMALIZED'] = old_set
  cover('accepted' if ok else 'rejected')
  if not (len(proc.cache.stored) == 1 and want == proc.cache.stored[0]):
    raise AssertionError('cache stored %r for %r' % (proc.cache.stored, x))
  if not (len(sent) == 1 and (want if relay_norm else x) == sent[0]):
    raise AssertionError('relay sent %r for %r' % (sent, x))
  return True


def C18_processors(x: str, relay_norm: bool) -> bool:
  """
  pre: len(x) <= 4
  post: __return__
  """
  return _processors(CACHE, CLIENT, TS, x, relay_norm)


def replay_processors(x, relay_norm):
  return _processors(real_cache, real_client, cutil.TaggedSeries, x, relay_norm)


# names the parser must reject, and stay exactly as received (incl. ones its helpers reject implicitly)
REJECTS = ['n;', 'n;=v', 'n;t=', 'n;t', ';t=v', 'n;t!=v', 'n;t^x=v', 'n;t=~v', 'n;a=b;c', '~;t=v', 'n{t="v"}{u="w"}', 'n{x{a="1"}',
           'n{t=v}', 'n{="v"}', '{t="v"}', 'n{t=""}', 'n{t="v\\"}', 'n;a={;b={x"}', 'n{a;b="v"}', 'n{t="~v"}', 'n.{{.m{a="1",b="2"}',
           'cpu{dc="",host="a"}', 'cpu{="x",host="a"}', 'cpu{a="1"b="2"}', 'cpu{a="\\y",b="2"}', 'cpu{a="1" b="2"}', 'cpu{a!="1",b="2"}',
           'cpu{a="1",b=""}', 'cpu{a="1",="2"}', 'cpu{a="~1",b="2"}']
# entries that violate a documented tag rule outright (empty tag / value, reserved character in a tag, value starting
# with '~', a segment that is not tag=value, tags not separated by a comma, an illegal escape): the parser must refuse them
MUST_REJECT = [x for x in REJECTS if x not in ('n{t=v}',)]


def C18_rejects(i: int, relay_norm: bool) -> bool:
  """
  pre: 0 <= i < len(REJECTS)
  post: __return__
  """
  from vp_lib.api import pick
  x = pick(REJECTS, i)
  want, ok = normalise(TS, x)
  if ok:
    if x in MUST_REJECT:
      raise AssertionError('the parser accepted %r, which violates the tag rules, and rewrote it to %r' % (x, want))
    return True          # not a rule violation, merely not in tag syntax: nothing to check for this entry
  return _processors(CACHE, CLIENT, TS, x, relay_norm)


def replay_rejects(i, relay_norm):
  x = REJECTS[i]
  if normalise(cutil.TaggedSeries, x)[1]:
    return x not in MUST_REJECT
  return _processors(real_cache, real_client, cutil.TaggedSeries, x, relay_norm)


_ASSUME = ['TaggedSeries executed as a shadow with exception-message formatting removed (it realises symbolic strings); replay on the real class',
           'Normalise(x) = TaggedSeries.parse(x).path, or x itself when the parser raises (what CacheFeedingProcessor / RelayProcessor do)']

HARNESSES = [
  H('C18_any', quick=dict(timeout=280, shards=[('len%d' % n, 'len(x) == %d' % n) for n in range(5)], extra_pre=['len(x) <= 4']),
    thorough=dict(timeout=1500, shards=[('len%d' % n, 'len(x) == %d' % n) for n in range(6)], extra_pre=['len(x) <= 5']),
    covers=['accepted', 'rejected'], replay='replay_any', twin_pre=['len(x) <= 2'],
    encodes=['carbon.util:TaggedSeries.parse', 'carbon.util:TaggedSeries.parse_carbon', 'carbon.util:TaggedSeries.parse_openmetrics',
             'carbon.util:TaggedSeries.validateTagAndValue', 'carbon.util:TaggedSeries.format', 'carbon.util:TaggedSeries.sanitize_name_as_tag_value'],
    assumptions=_ASSUME + ['every string of length <= 4 (quick) / 5 (thorough) over the full alphabet']),
  H('C18_carbon', quick=dict(timeout=280, shards=[('one', 'not two'), ('two', 'two and ni <= 1 and t1i <= 3 and t2i <= 3 and v1i in (0, 3) and v2i in (0, 3)')]),
    thorough=dict(timeout=600, extra_pre=['(not two) or (v1i % 2 == 0 and v2i % 2 == 0)'], shards=[('one', 'not two')] + [('two_n%d_t%d' % (k, t), 'two and ni == %d and t1i == %d' % (k, t)) for k in range(len(COMP2)) for t in range(len(COMP2))]),
    covers=['accepted', 'rejected', 'permuted'], replay='replay_carbon', twin_pre=['two and ni <= 1'],
    encodes=['carbon.util:TaggedSeries.parse_carbon', 'carbon.util:TaggedSeries.format', 'carbon.util:TaggedSeries.validateTagAndValue'],
    assumptions=_ASSUME + ['template name;t1=v1[;t2=v2], components from a table of %d strings incl. empty and reserved-character ones (symbolic indices); arbitrary strings up to the C18_any bound are covered there' % len(COMP2) + '']),
  H('C18_syntax', quick=dict(timeout=420, shards=[('one', 'not two'), ('two_n0', 'two and ni == 0 and v1i <= 2 and v2i <= 2'), ('two_n1', 'two and ni == 1 and v1i <= 2 and v2i <= 2')]),
    thorough=dict(timeout=900, extra_pre=['(not two) or (v1i <= 4 and v2i <= 4)'], shards=[('one', 'not two')] + [('two_n%d' % k, 'two and ni == %d' % k) for k in range(len(COMP))]), covers=['both'], replay='replay_syntax',
    encodes=['carbon.util:TaggedSeries.parse_openmetrics', 'carbon.util:TaggedSeries.parse_carbon', 'carbon.util:TaggedSeries.format'],
    assumptions=_ASSUME + ['same tag set written in carbon and OpenMetrics syntax and in both orders; name/tags/values from a table of %d plain components with symbolic indices (the OpenMetrics regex on symbolic strings is out of CrossHair\'s reach); optional explicit name tag' % len(COMP) + '']),
  H('C18_mixed', quick=dict(timeout=280, shards=[('tags_first', 'order')], extra_pre=['t2 == "t" and v1 == "1"']), thorough=dict(timeout=1500, shards=[('tags_first', 'order'), ('braces_first', 'not order')]), covers=['accepted', 'rejected'], replay='replay_mixed',
    encodes=['carbon.util:TaggedSeries.parse', 'carbon.util:TaggedSeries.format'],
    assumptions=_ASSUME + ['names mixing both syntaxes, 1-character symbolic components']),
  H('C18_processors', quick=dict(timeout=280, extra_pre=['len(x) <= 3']), thorough=dict(timeout=900), covers=['accepted', 'rejected'],
    replay='replay_processors',
    encodes=['carbon.cache:CacheFeedingProcessor.process', 'carbon.client:RelayProcessor.process'],
    assumptions=_ASSUME + ['carbon.cache / carbon.client executed as message-stripped shadow modules; recording cache and client manager']),
  H('C18_rejects', quick=dict(timeout=200), end=True, replay='replay_rejects',
    encodes=['carbon.cache:CacheFeedingProcessor.process', 'carbon.client:RelayProcessor.process', 'carbon.util:TaggedSeries.parse_openmetrics'],
    assumptions=_ASSUME + ['table of %d names the parser rejects (symbolic index), incl. ones rejected implicitly by an unpacking or regex failure' % len(REJECTS)]),
]
