"""C15 — what a relay's client encodes is what the next daemon's listener decodes."""
import math
import struct
import sys

from vp_lib.api import H, cover, pick
from vp_lib import clientlab as L
from vp_lib.carbonenv import make_receiver, drop_receiver, Recorder, RecTransport, quiet

import carbon.protocols as protocols  # noqa: E402

quiet(protocols)
INF = float('inf')
DBL_MAX = sys.float_info.max
VALUES = [0.0, -0.0, 1.0, -1.0, 10.0, 100.0, 1e10, 120.0, 0.1, 0.5, 1.5, 1e-10, 5e-11, 4.9e-11, 1e-11, 1e-12, 5e-324, 2.2250738585072014e-308,
          1.00000000005, 1.00000000004, 0.12345678905, 123456.7890123456, 1e15 + 0.3, 2.0 ** 53, 2.0 ** 53 + 2, 1e16, 1.2345678901234566e+16,
          9.007199254740993e+15, 1e22, 1.7976931348623157e+308, -1.7976931348623157e+308, 8.98846567431158e+307, 1e300 / 3, INF, -INF,
          3.141592653589793, -2.718281828459045, 1e-5, 123456789.123456789, -0.5, -0.25, -1e-5, -0.999999, -5e-11,
          0, 1, -1, 10, 100, 1000000, 2 ** 31, 2 ** 53 + 1, 10 ** 20, -10 ** 20, True]
STAMPS = [0, 1, 1700000060, 2 ** 31, 2 ** 32 - 1, 1700000060.75, 0.999, 59.5]
NAMES = ['a', 'a.b.c', 'é.ü', '\U0001F600', 'x;t=v', 'a/b', 'carbon.agents.h-a.metricsReceived']


def _ulp(x):
  return math.ulp(x) if math.isfinite(x) else 0.0


def _line_rt(cmod, ni, vi, ti):
  name, value, ts = pick(NAMES, ni), pick(VALUES, vi), pick(STAMPS, ti)
  L.configure(cmod, 1, 10, 10, 5)
  f = L.make_factory(cmod, kind='line')
  proto, t, _ = L.connect(f, record=False, transport=RecTransport())
  proto._sendDatapointsNow([(name, (ts, value))])
  wire = b''.join(t.written)
  r = make_receiver(protocols.MetricLineReceiver)
  try:
    with Recorder() as rec:
      r.dataReceived(wire)
  finally:
    drop_receiver(r)
  cover('sent')
  if len(rec.items) != 1:
    raise AssertionError('line %r decoded to %d datapoints' % (wire, len(rec.items)))
  (m, (t2, v2)) = rec.items[0]
  if m != name:
    raise AssertionError('metric name altered')
  if t2 != int(ts):
    raise AssertionError('timestamp not truncated to whole seconds: %r -> %r' % (ts, t2))
  fv = float(value)
  if math.isinf(fv):
    ok = (v2 == fv)
  else:
    ok = abs(v2 - fv) <= 5e-11 + _ulp(fv)
  if not ok:
    raise AssertionError('value %r arrived as %r' % (value, v2))
  return True


def C15_line_rt(ni: int, vi: int, ti: int) -> bool:
  """
  pre: 0 <= ni < len(NAMES) and 0 <= vi < len(VALUES) and 0 <= ti < len(STAMPS)
  post: __return__
  """
  return _line_rt(L.SHADOW, ni, vi, ti)


def replay_line_rt(ni, vi, ti):
  return _line_rt(L.real_client, ni, vi, ti)


def _pickle_rt(cmod, ni, vi, ti, n):
  name, value, ts = pick(NAMES, ni), pick(VALUES, vi), pick(STAMPS, ti)
  L.configure(cmod, 1, 10, 10, 5)
  f = L.make_factory(cmod, kind='pickle')
  proto, t, _ = L.connect(f, record=False, transport=RecTransport())
  batch = [(name, (ts, value))] + [('other.%d' % i, (i, i)) for i in range(n)]
  proto._sendDatapointsNow(batch)
  wire = b''.join(t.written)
  (length,) = struct.unpack('!I', wire[:4])
  if length != len(wire) - 4:
    raise AssertionError('frame length prefix wrong')
  r = make_receiver(protocols.MetricPickleReceiver)
  try:
    with Recorder() as rec:
      r.dataReceived(wire)
  finally:
    drop_receiver(r)
  cover('sent')
  # the listener reads entries as (metric, (timestamp, value)) and coerces both numbers to float
  want = [(m, (float(a), float(b))) for (m, (a, b)) in batch]
  if rec.items != want:
    raise AssertionError('pickle round trip altered the batch: %r' % (rec.items[:1],))
  return True


def C15_pickle_rt(ni: int, vi: int, ti: int, n: int) -> bool:
  """
  pre: 0 <= ni < len(NAMES) and 0 <= vi < len(VALUES) and 0 <= ti < len(STAMPS)
  pre: 0 <= n <= 2
  post: __return__
  """
  return _pickle_rt(L.SHADOW, ni, vi, ti, n)


def replay_pickle_rt(ni, vi, ti, n):
  return _pickle_rt(L.real_client, ni, vi, ti, n)


def _submit(f, n, dups):
  """n datapoints through the factory's public entry; datapoint i repeats datapoint i-1 exactly when bit
  i of `dups` is set (a sender may legitimately repeat itself: nothing may be merged)."""
  items = []
  for i in range(n):
    item = items[-1] if (i > 0 and (dups >> i) & 1) else ('m', (i, i))
    f.sendDatapoint(item[0], item[1])
    items.append(item)
  return items


def _batching(mod, n, batch, kind, dups=0):
  clock = L.configure(mod, 100, 100, 100, batch)
  f = L.make_factory(mod, kind=kind)
  proto, t, batches = L.connect(f)
  for c in clock.getDelayedCalls():
    c.cancel()
  before = _submit(f, n, dups)
  L.drain_clock(clock)
  cover('drained')
  flat = [x for b in batches for x in b]
  if flat != before:
    raise AssertionError('messages merge, reorder or drop datapoints: %r' % (flat,))
  for b in batches:
    if len(b) > batch or len(b) == 0:
      raise AssertionError('message of %d datapoints with MAX_DATAPOINTS_PER_MESSAGE' % len(b))
  return len(f.queue) == 0


def C15_batching(n: int, batch: int, pickle_proto: bool, dups: int) -> bool:
  """
  pre: 0 <= n <= 7
  pre: batch >= 1
  pre: 0 <= dups < 128
  post: __return__
  """
  return _batching(L.SHADOW, n, batch, 'pickle' if pickle_proto else 'line', dups)


def replay_batching(n, batch, pickle_proto, dups):
  return _batching(L.real_client, n, batch, 'pickle' if pickle_proto else 'line', dups)


def _batch_wire(cmod, n, batch, kind, dups=0):
  """Whole path with the real encoders: queue of n datapoints split into messages, every byte
  written fed to the real listener."""
  clock = L.configure(cmod, 100, 100, 100, batch)
  f = L.make_factory(cmod, kind=kind)
  proto, t, _ = L.connect(f, record=False, transport=RecTransport())
  for c in clock.getDelayedCalls():
    c.cancel()
  before = _submit(f, n, dups)
  L.drain_clock(clock)
  r = make_receiver(protocols.MetricPickleReceiver if kind == 'pickle' else protocols.MetricLineReceiver)
  try:
    with Recorder() as rec:
      for chunk in t.written:
        r.dataReceived(chunk)
  finally:
    drop_receiver(r)
  cover('received')
  want = [(m, (float(a), float(b))) for (m, (a, b)) in before]
  return rec.items == want


def C15_batch_wire(n: int, batch: int, pickle_proto: bool, dups: int) -> bool:
  """
  pre: 0 <= n <= 5
  pre: 1 <= batch <= 6
  pre: 0 <= dups < 32
  post: __return__
  """
  return _batch_wire(L.SHADOW, n, batch, 'pickle' if pickle_proto else 'line', dups)


def replay_batch_wire(n, batch, pickle_proto, dups):
  return _batch_wire(L.real_client, n, batch, 'pickle' if pickle_proto else 'line', dups)


_ASSUME = ['values, timestamps and names come from boundary tables (symbolic indices): printf("%.10f"), strtod and the C pickle codec '
           'are C code, so each table point is concretised; all points are covered because the index is symbolic',
           'tolerance for the plaintext protocol: |v\' - v| <= 5e-11 + ulp(v) (the rounding to 10 decimals and the float rounding can add up), '
           '+-inf preserved exactly, timestamp == int(timestamp)',
           'carbon.client executed as a message-stripped shadow; receivers are the real carbon.protocols classes fed with the bytes written']

HARNESSES = [
  H('C15_line_rt', quick=dict(timeout=280, shards=[('v%d' % k, 'vi %% 4 == %d' % k) for k in range(4)], extra_pre=['ni <= 2', 'ti % 2 == 0 or vi % 5 == 0']),
    thorough=dict(timeout=1200, shards=[('v%d' % k, 'vi %% 8 == %d' % k) for k in range(8)]), covers=['sent'], replay='replay_line_rt',
    encodes=['carbon.client:CarbonLineClientProtocol._sendDatapointsNow', 'carbon.protocols:MetricLineReceiver.lineReceived'],
    assumptions=_ASSUME + ['%d values x %d timestamps x %d names' % (len(VALUES), len(STAMPS), len(NAMES))]),
  H('C15_pickle_rt', quick=dict(timeout=280, shards=[('v%d' % k, 'vi %% 4 == %d' % k) for k in range(4)], extra_pre=['ni <= 2', 'n <= 1', 'ti % 2 == 0 or vi % 5 == 0']),
    thorough=dict(timeout=1200, shards=[('v%d' % k, 'vi %% 8 == %d' % k) for k in range(8)]), covers=['sent'], replay='replay_pickle_rt',
    encodes=['carbon.client:CarbonPickleClientProtocol._sendDatapointsNow', 'carbon.protocols:MetricPickleReceiver.stringReceived'],
    assumptions=_ASSUME),
  H('C15_batching', quick=dict(timeout=280, shards=[('n%d' % k, 'n == %d' % k) for k in range(8)], extra_pre=['dups < 2 ** n', 'n <= 4 or dups in (0, 2, 12, 20, 40, 96)']), covers=['drained'], replay='replay_batching',
    twin_pre=['n <= 3'],
    encodes=['carbon.client:CarbonClientFactory.takeSomeFromQueue', 'carbon.client:CarbonClientProtocol.sendQueued',
             'carbon.client:CarbonClientFactory.scheduleSend'],
    assumptions=['0..7 datapoints submitted through sendDatapoint, each optionally an exact repeat of its predecessor (symbolic bits), MAX_DATAPOINTS_PER_MESSAGE any symbolic int >= 1, encoders replaced by a recorder, timers run to quiescence']),
  H('C15_batch_wire', quick=dict(timeout=280, shards=[('line', 'not pickle_proto'), ('pickle', 'pickle_proto')], extra_pre=['dups < 2 ** n', 'dups in (0, 2, 4, 6, 24)']), covers=['received'],
    replay='replay_batch_wire',
    encodes=['carbon.client (send path)', 'carbon.protocols (receive path)'],
    assumptions=_ASSUME + ['queue length 0..5, batch size 1..6, real encoders and real listeners']),
]
