"""C08 — aggregates are the rule function over exactly the values of their interval."""
import math

from vp_lib.api import H, cover, pick, boot_carbon
from vp_lib.shadow import shadow_module
from vp_lib.carbonenv import Recorder, quiet
from vp_lib.cachelab import sset

boot_carbon()
import carbon.aggregator.buffers as real_buffers  # noqa: E402
import carbon.aggregator.rules as real_rules  # noqa: E402
import carbon.aggregator.processor as real_processor  # noqa: E402
from carbon import state, events  # noqa: E402

BUF = shadow_module(real_buffers)
quiet(real_buffers)
quiet(real_rules)
quiet(real_processor)
F = 10                                     # rule frequency used by the step harnesses
ORDER = [20, 0, 40, 10, 30, 50]            # creation order of candidate buffers: deliberately not sorted
METHODS = sorted(real_rules.AGGREGATION_METHODS)
EXACT = ('sum', 'min', 'max', 'count')     # decided on symbolic ints; avg / percentiles on concrete values


def _ref(method, values):
  """Reference written from the documentation (conf/aggregation-rules.conf.example)."""
  if method == 'sum':
    return sum(values)
  if method == 'min':
    return min(values)
  if method == 'max':
    return max(values)
  if method == 'count':
    return len(values)
  if method == 'avg':
    return float(sum(values)) / len(values)
  p = {'p50': 0.5, 'p75': 0.75, 'p80': 0.8, 'p90': 0.9, 'p95': 0.95, 'p99': 0.99, 'p999': 0.999}[method]
  vs = sorted(values)
  rank = p * (len(vs) - 1)
  lo, hi = int(math.floor(rank)), int(math.ceil(rank))
  if lo == hi:
    return vs[lo]
  return vs[lo] * (hi - rank) + vs[hi] * (rank - lo)


class _Task(object):
  def __init__(self):
    self.running, self.stopped = True, 0

  def stop(self):
    self.running = False
    self.stopped += 1


class _Clock(object):
  def __init__(self, now):
    self.now = now

  def time(self):
    return self.now


def _make_buffer(mod, method, present, inactive, since, v0, v1):
  mod.BufferManager.buffers.clear()
  buf = mod.MetricBuffer('agg.out')
  buf.aggregation_frequency = F
  buf.aggregation_func = real_rules.AGGREGATION_METHODS[method]
  buf.compute_task = _Task()
  buf.configured = True
  mod.BufferManager.buffers['agg.out'] = buf
  model = {}
  for i, interval in enumerate(ORDER):
    if present[i]:
      ib = mod.IntervalBuffer(interval)
      vals = [v0 + i, v1] if (i % 2 == 0) else [v1 - i]
      if method not in EXACT:
        vals = [[3, 8, 1, 9], [4], [7, 2, 6], [5, 5], [9, 1, 4, 4, 7], [2, 10]][i]     # lengths 1..5: percentile ranks between and on elements
      ib.values = list(vals)
      ib.inactive_since = (since[i] if inactive[i] else None)
      buf.interval_buffers[interval] = ib
      model[interval] = (list(vals), ib.inactive_since)
  return buf, model


def _tick_step(mod, mi, p, a, s0, s1, s2, s3, s4, s5, now, maxint, v0, v1):
  method = pick(METHODS, mi)
  present = [((p >> i) & 1) == 1 for i in range(6)]
  inactive = [((a >> i) & 1) == 1 for i in range(6)]
  since = [s0, s1, s2, s3, s4, s5]
  buf, model = _make_buffer(mod, method, present, inactive, since, v0, v1)
  sset('MAX_AGGREGATION_INTERVALS', maxint)
  mod.time = _Clock(now)
  with Recorder(events.metricGenerated) as rec:
    buf.compute_value()
  cur = now - now % F
  threshold = cur - maxint * F
  want_emit = sorted((interval, _ref(method, vals)) for interval, (vals, ina) in model.items() if ina is None)
  got = sorted((dp[0], dp[1]) for (m, dp) in rec.items)
  if [m for (m, dp) in rec.items if m != 'agg.out']:
    raise AssertionError('emitted under another series name')
  if got != want_emit:
    raise AssertionError('emitted %r, expected exactly the intervals with new data: %r' % (got, want_emit))
  cover('emitted' if want_emit else 'quiet')
  # survivors: not (inactive and older than the horizon); then only the newest MAX+2 intervals
  keep = sorted(i for i, (vals, ina) in model.items() if ina is None or not (ina < threshold))
  if len(keep) > maxint + 2:
    cover('trimmed')
    keep = keep[len(keep) - (maxint + 2):]
  left = sorted(buf.interval_buffers.keys())
  if left != keep:
    raise AssertionError('buffers kept %r, expected %r' % (left, keep))
  if len(left) > maxint + 2:
    raise AssertionError('more than MAX_AGGREGATION_INTERVALS + 2 buffers after a flush')
  for i in left:
    ib = buf.interval_buffers[i]
    if ib.values != model[i][0]:
      raise AssertionError('values of a kept interval changed')
    if model[i][1] is None and ib.inactive_since != cur:
      raise AssertionError('emitted interval not marked inactive')
  if not left:
    cover('released')
    if buf.compute_task.running or buf.configured or 'agg.out' in mod.BufferManager.buffers:
      raise AssertionError('idle series not released')
  elif 'agg.out' not in mod.BufferManager.buffers or not buf.compute_task.running:
    raise AssertionError('live series released')
  return True


def C08_tick_step(mi: int, p: int, a: int, s0: int, s1: int, s2: int, s3: int, s4: int, s5: int, now: int, maxint: int, v0: int, v1: int) -> bool:
  """
  pre: 0 <= mi < len(METHODS)
  pre: 0 <= p < 64 and 0 <= a < 64
  pre: now >= 0
  pre: 0 <= maxint <= 3
  post: __return__
  """
  return _tick_step(BUF, mi, p, a, s0, s1, s2, s3, s4, s5, now, maxint, v0, v1)


def replay_tick_step(mi, p, a, s0, s1, s2, s3, s4, s5, now, maxint, v0, v1):
  return _tick_step(real_buffers, mi, p, a, s0, s1, s2, s3, s4, s5, now, maxint, v0, v1)


_PERMS4 = [(0, 1, 2, 3), (3, 2, 1, 0), (1, 2, 3, 0), (2, 0, 3, 1), (0, 3, 1, 2), (3, 0, 2, 1), (1, 3, 0, 2), (2, 3, 0, 1)]


def _late_after_flush(mod, n, oi, maxint, k, v, tail):
  """History through the real input(): datapoints for n consecutive intervals arrive in some order, a flush
  emits them (and trims down to MAX_AGGREGATION_INTERVALS + 2 buffers), then one more datapoint arrives for
  interval k - possibly one that has just been trimmed - and, optionally, one for the newest interval;
  the next flush must emit interval k with exactly the values received since it was last emitted."""
  mod.BufferManager.buffers.clear()
  buf = mod.MetricBuffer('agg.out')
  buf.aggregation_frequency = F
  buf.aggregation_func = real_rules.AGGREGATION_METHODS['sum']
  buf.compute_task = _Task()
  buf.configured = True
  mod.BufferManager.buffers['agg.out'] = buf
  sset('MAX_AGGREGATION_INTERVALS', maxint)
  order = [i for i in _PERMS4[oi] if i < n]
  for i in order:
    buf.input((i * F + 1, 10 + i))
  mod.time = _Clock((n - 1) * F + 2)
  with Recorder(events.metricGenerated) as rec:
    buf.compute_value()
  first = sorted((dp[0], dp[1]) for (m, dp) in rec.items)
  if first != [(i * F, 10 + i) for i in range(n)]:
    raise AssertionError('first flush emitted %r' % (first,))
  if len(buf.interval_buffers) > maxint + 2:
    raise AssertionError('more than MAX_AGGREGATION_INTERVALS + 2 buffers after a flush')
  if n > maxint + 2:
    cover('trimmed')
  buf.input((k * F + 3, v))
  if tail:
    buf.input(((n - 1) * F + 4, 1))
  with Recorder(events.metricGenerated) as rec2:
    buf.compute_value()
  second = sorted((dp[0], dp[1]) for (m, dp) in rec2.items)
  want = {k * F: v}
  if tail:
    want[(n - 1) * F] = want.get((n - 1) * F, 0) + 1 + (0 if k == n - 1 else 0)
  # an interval emitted before and still buffered is re-emitted over all its values; a trimmed one starts afresh
  exp = []
  for interval in sorted(want):
    i = interval // F
    kept = (n - 1 - i) < (maxint + 2)
    exp.append((interval, want[interval] + ((10 + i) if kept else 0)))
  cover('late')
  if second != exp:
    raise AssertionError('second flush emitted %r, expected %r' % (second, exp))
  return True


def C08_late_after_flush(n: int, oi: int, maxint: int, k: int, v: int, tail: bool) -> bool:
  """
  pre: 2 <= n <= 4
  pre: 0 <= oi < len(_PERMS4)
  pre: 0 <= maxint <= 2
  pre: 0 <= k < n
  post: __return__
  """
  return _late_after_flush(BUF, n, oi, maxint, k, v, tail)


def replay_late_after_flush(n, oi, maxint, k, v, tail):
  return _late_after_flush(real_buffers, n, oi, maxint, k, v, tail)


def _input_step(mod, p, a, k, r, value):
  present = [((p >> i) & 1) == 1 for i in range(6)]
  inactive = [((a >> i) & 1) == 1 for i in range(6)]
  buf, model = _make_buffer(mod, 'sum', present, inactive, [7] * 6, 1, 2)
  ts = pick([0, 10, 20, 30, 70], k) + r          # any timestamp inside one of 5 intervals
  interval = ts - r
  buf.input((ts, value))
  want = dict((i, (list(v), ina)) for i, (v, ina) in model.items())
  if interval in want:
    cover('existing_interval')
    want[interval] = (want[interval][0] + [value], None)
  else:
    cover('new_interval')
    want[interval] = ([value], None)
  got = dict((i, (list(ib.values), ib.inactive_since)) for i, ib in buf.interval_buffers.items())
  if got != want:
    raise AssertionError('input() touched something else: %r vs %r' % (got, want))
  for i, ib in buf.interval_buffers.items():
    if ib.interval != i or i % F != 0:
      raise AssertionError('bucket not aligned to the rule frequency')
  return True


def C08_input_step(p: int, a: int, k: int, r: int, value: int) -> bool:
  """
  pre: 0 <= p < 64 and 0 <= a < 64
  pre: 0 <= k <= 4
  pre: 0 <= r < 10
  post: __return__
  """
  return _input_step(BUF, p, a, k, r, value)


def replay_input_step(p, a, k, r, value):
  return _input_step(real_buffers, p, a, k, r, value)


def _seq(mod, ops, ks, rs, vs, maxint):
  """<= 4 events {datapoint, flush tick} on a virtual clock.  Every emission for (series, interval)
  is the sum over EXACTLY the values received for that interval that are still buffered, it includes
  every value received since the interval was last emitted, and an interval is re-emitted only when new
  data arrived; while an interval is within the horizon nothing of it is forgotten."""
  mod.BufferManager.buffers.clear()
  buf = mod.MetricBuffer('agg.out')
  buf.aggregation_frequency = F
  buf.aggregation_func = sum
  buf.compute_task = _Task()
  buf.configured = True
  mod.BufferManager.buffers['agg.out'] = buf
  sset('MAX_AGGREGATION_INTERVALS', maxint)
  clock = _Clock(100)
  mod.time = clock
  received = {}        # interval -> all values ever received
  fresh = {}           # interval -> values received since its last emission
  for j, op in enumerate(ops):
    if op == 0:
      ts = pick([60, 70, 80, 90, 100, 110], ks[j]) + rs[j]
      interval = ts - rs[j]
      if not buf.configured:
        return True      # series released; a new MetricBuffer would be allocated by the processor
      buf.input((ts, vs[j]))
      received.setdefault(interval, []).append(vs[j])
      fresh.setdefault(interval, []).append(vs[j])
    else:
      clock.now += pick([0, 3, 10, 25], ks[j] % 4)
      if not buf.configured:
        return True
      with Recorder(events.metricGenerated) as rec:
        buf.compute_value()
      cur = clock.now - clock.now % F
      seen = {}
      for (m, (interval, value)) in rec.items:
        if interval in seen:
          raise AssertionError('interval emitted twice in one flush')
        seen[interval] = value
        if not fresh.get(interval):
          raise AssertionError('interval %d re-emitted without new data' % interval)
        allv, newv = received[interval], fresh[interval]
        within = interval >= cur - maxint * F
        if within and value != sum(allv):
          raise AssertionError('interval %d within the horizon emitted %r, all its values sum to %r' % (interval, value, sum(allv)))
        if value < sum(newv) and all(x >= 0 for x in allv):
          raise AssertionError('emission misses values received since the last emission')
        fresh[interval] = []
      for interval, newv in fresh.items():
        if newv and interval not in seen:
          raise AssertionError('new data for interval %d not emitted by the flush' % interval)
      cover('flushed')
      if len(buf.interval_buffers) > maxint + 2:
        raise AssertionError('more than MAX_AGGREGATION_INTERVALS + 2 buffered intervals after a flush')
  return True


def C08_seq(o0: int, o1: int, o2: int, o3: int, n: int, k0: int, k1: int, k2: int, k3: int, r0: int, r1: int, r2: int, r3: int,
            v0: int, v1: int, v2: int, v3: int, maxint: int) -> bool:
  """
  pre: 0 <= o0 <= 1 and 0 <= o1 <= 1 and 0 <= o2 <= 1 and 0 <= o3 <= 1
  pre: 1 <= n <= 4
  pre: 0 <= k0 <= 5 and 0 <= k1 <= 5 and 0 <= k2 <= 5 and 0 <= k3 <= 5
  pre: 0 <= r0 < 10 and 0 <= r1 < 10 and 0 <= r2 < 10 and 0 <= r3 < 10
  pre: v0 >= 0 and v1 >= 0 and v2 >= 0 and v3 >= 0
  pre: 0 <= maxint <= 2
  post: __return__
  """
  return _seq(BUF, [o0, o1, o2, o3][:n], [k0, k1, k2, k3], [r0, r1, r2, r3], [v0, v1, v2, v3], maxint)


def replay_seq(o0, o1, o2, o3, n, k0, k1, k2, k3, r0, r1, r2, r3, v0, v1, v2, v3, maxint):
  return _seq(real_buffers, [o0, o1, o2, o3][:n], [k0, k1, k2, k3], [r0, r1, r2, r3], [v0, v1, v2, v3], maxint)


# ---- forwarding ------------------------------------------------------------------------------------------
class _Rule(object):
  frequency = 10
  aggregation_func = staticmethod(sum)

  def __init__(self, result):
    self.result = result

  def get_aggregate_metric(self, metric):
    return self.result


class _NullBuffer(object):
  configured = True

  def __init__(self):
    self.inputs = []

  def input(self, dp):
    self.inputs.append(dp)


def C08_forward(r0: int, r1: int, r2: int, nrules: int, forward_all: bool) -> bool:
  """
  pre: 0 <= nrules <= 3
  pre: 0 <= r0 <= 2 and 0 <= r1 <= 2 and 0 <= r2 <= 2
  post: __return__
  """
  # each rule maps the metric to: nothing (0), an aggregate with another name (1), the metric's own name (2)
  metric = 'prod.all.requests'
  results = [[None, 'agg.total', metric][x] for x in [r0, r1, r2][:nrules]]
  sset('FORWARD_ALL', forward_all)
  sset('LOG_AGGREGATOR_MISSES', False)
  old_rules, old_get = real_processor.RuleManager.rules, real_processor.BufferManager.get_buffer
  bufs = {}

  def get_buffer(path):
    return bufs.setdefault(path, _NullBuffer())
  real_processor.RuleManager.rules = [_Rule(x) for x in results]
  real_processor.BufferManager.get_buffer = get_buffer
  try:
    proc = real_processor.AggregationProcessor.__new__(real_processor.AggregationProcessor)
    out = list(proc.process(metric, (100, 5)))
  finally:
    real_processor.RuleManager.rules = old_rules
    real_processor.BufferManager.get_buffer = old_get
    sset('FORWARD_ALL', True)
  feeds_itself = metric in results
  cover('ran')
  want = [(metric, (100, 5))] if (forward_all and not feeds_itself) else []
  if out != want:
    raise AssertionError('pass-through %r, expected %r' % (out, want))
  # every matching rule's aggregate got the datapoint exactly once per matching rule
  for name in set(x for x in results if x is not None):
    if bufs[name].inputs != [(100, 5)] * results.count(name):
      raise AssertionError('aggregate %r fed %r' % (name, bufs[name].inputs))
  return True


# ---- rule patterns ---------------------------------------------------------------------------------------
PATTERNS = ['a.b', 'a.*', '*.b', 'a.<f>', '<f>.b', 'a.x<f>', 'a.<f>y', 'a.<<f>>', '<<f>>.b', 'a.b*', '*', '<f>', 'a.*.c', 'a.<f>.c', '<<g>>.<f>', '<<g>>.x.<f>', '<f>.<<g>>']


def _ref_match(pattern, name):
  """Documented pattern language: dot-separated parts; '*' and <field> match within ONE dot-free
  segment (non-empty for a bare '*' and for fields), <<field>> matches across dots (non-empty);
  the pattern must match the WHOLE name.  Returns the captured field or True/None."""
  import re
  parts = []
  for part in pattern.split('.'):
    if '<<' in part and '>>' in part:
      i, j = part.find('<<'), part.find('>>')
      parts.append(re.escape(part[:i]) + '(?P<%s>.+?)' % part[i + 2:j] + re.escape(part[j + 2:]))
    elif '<' in part and '>' in part and part.find('<') < part.find('>'):
      i, j = part.find('<'), part.find('>')
      parts.append(re.escape(part[:i]) + '(?P<%s>[^.]+?)' % part[i + 1:j] + re.escape(part[j + 1:]))
    elif part == '*':
      parts.append('[^.]+')
    else:
      parts.append('[^.]*'.join(re.escape(x) for x in part.split('*')))
  m = re.fullmatch('\\.'.join(parts), name, re.DOTALL if False else 0)
  if m is None:
    return None
  return m.groupdict().get('f', True)


class _Ticks(object):
  """Monotonic counter standing in for time.monotonic inside cachetools.TTLCache."""

  def __init__(self):
    self.t = 0

  def __call__(self):
    self.t += 1
    return self.t


def _pattern(pi, name, cache_kind):
  pattern = pick(PATTERNS, pi)
  sset('CACHE_METRIC_NAMES_MAX', [0, 4, 4][cache_kind])
  sset('CACHE_METRIC_NAMES_TTL', [0, 0, 60][cache_kind])
  old_ttl = real_rules.TTLCache
  real_rules.TTLCache = lambda size, ttl: old_ttl(size, ttl, timer=_Ticks())      # deterministic clock for the TTL cache
  try:
    rule = real_rules.AggregationRule(pattern, 'out.<f>' if '<' in pattern else 'out.all', 'sum', 10)
    first = rule.get_aggregate_metric(name)
    second = rule.get_aggregate_metric(name)
    # a second rule with the SAME input pattern and another output: caches must not leak between rules
    other = real_rules.AggregationRule(pattern, 'alt.<f>' if '<' in pattern else 'alt.all', 'count', 10)
    other_res = other.get_aggregate_metric(name)
    again = rule.get_aggregate_metric(name)
  finally:
    real_rules.TTLCache = old_ttl
    sset('CACHE_METRIC_NAMES_MAX', 0)
    sset('CACHE_METRIC_NAMES_TTL', 0)
  want = _ref_match(pattern, name)
  cover('matched' if want is not None else 'missed')
  if not (first == second) or not (first == again):
    raise AssertionError('name cache changes the answer')
  if (first is None) != (other_res is None) or (first is not None and not (('alt' + first[3:]) == other_res)):
    raise AssertionError('a rule answered with another rule\'s aggregate name: %r / %r' % (first, other_res))
  if want is None:
    if first is not None:
      raise AssertionError('pattern %r matched %r, which it does not match as a whole name' % (pattern, name))
    return True
  expect = 'out.all' if want is True else 'out.' + want
  if not (expect == first):
    raise AssertionError('pattern %r on %r gave %r, expected %r' % (pattern, name, first, expect))
  if want is not True and '<<f' not in pattern and '.' in want:
    raise AssertionError('<field> spans a dot')
  return True


def C08_pattern(pi: int, name: str, cache_kind: int) -> bool:
  """
  pre: 0 <= pi < len(PATTERNS)
  pre: len(name) <= 4
  pre: all(c in 'abxy.c' + chr(10) for c in name)
  pre: '<' not in PATTERNS[pi]
  pre: 0 <= cache_kind <= 2
  post: __return__
  """
  return _pattern(pi, name, cache_kind)


def _all_names():
  out, frontier = [''], ['']
  for _ in range(3):
    frontier = [x + c for x in frontier for c in 'ab.x\n']
    out += frontier
  return out


FIELD_PATTERNS = [x for x in PATTERNS if '<' in x]
FIELD_NAMES = _all_names() + ['a.b.c', 'a.b.a.b', 'a.x.b.c', 'a.x.b', 'b.a.x.b.b', 'a.b.x.a', 'x.x.x.x']


def C08_pattern_fields(fi: int, ni: int, cache_kind: int) -> bool:
  """
  pre: 0 <= fi < len(FIELD_PATTERNS)
  pre: 0 <= ni < len(FIELD_NAMES)
  pre: 0 <= cache_kind <= 2
  post: __return__
  """
  # patterns with <field>/<<field>>: CrossHair's model of regex group capture on symbolic strings is
  # imprecise (non-replaying alarms), so names are drawn from the table of ALL strings of length <= 3
  # over {a, b, ., x, newline} by a symbolic index
  return _pattern(PATTERNS.index(pick(FIELD_PATTERNS, fi)), pick(FIELD_NAMES, ni), cache_kind)


_ASSUME = ['carbon.aggregator.buffers executed as a message-stripped shadow (replay: real module); LoopingCall replaced by a stub task; '
           'buffers.time -> symbolic int clock; state.events.metricGenerated recorded',
           'rule frequency 10 in the step harnesses; the alignment arithmetic for every frequency is the engine-S lemma C08_align',
           'values are ints (symbolic for sum/min/max/count; small concrete ones for avg and the percentiles, whose float arithmetic is out of CrossHair\'s reach)']


def _align_lemmas(tier):
  """Engine S: the bucket arithmetic of MetricBuffer.input / compute_value, from the current source."""
  import ast
  import inspect
  import textwrap
  import z3
  from vp_lib import pysym
  out = []
  src = ast.parse(textwrap.dedent(inspect.getsource(real_buffers.MetricBuffer)))
  assigns = {}
  for node in ast.walk(src):
    if isinstance(node, ast.Assign) and len(node.targets) == 1 and isinstance(node.targets[0], ast.Name):
      assigns.setdefault(node.targets[0].id, node.value)
  ts, f, now, mx = z3.Ints('ts f now mx')
  it = pysym.Interp(pysym.Clock(z3.RealVal(0)))
  try:
    obj = pysym.Obj(real_buffers.MetricBuffer, {'aggregation_frequency': f})
    fr = {'env': {'self': obj, 'timestamp': ts, 'now': now, 'max_aggregation_intervals': mx}, 'active': z3.BoolVal(True),
          'returned': z3.BoolVal(False), 'ret': None}
    interval = it.eval(assigns['interval'], fr)
    cur = it.eval(assigns['current_interval'], fr)
    fr['env']['current_interval'] = cur
    thr = it.eval(assigns['age_threshold'], fr)
  except (pysym.Unsupported, KeyError) as e:
    return [dict(name='C08_align translation', verdict='unknown', detail=repr(e), queries=0)]

  def lemma(name, asm, goal):
    v, m, dt = pysym.check(z3.Solver, asm, goal, 60000)
    rec = dict(name=name, verdict=v, model=m, solver_time_s=round(dt, 4), queries=1, detail='')
    if v == 'proved':
      ok, w = pysym.satisfiable(asm)
      rec['witness'] = w
      if not ok:
        rec['verdict'] = 'error'
    out.append(rec)
  lemma('A1 input(): interval <= ts < interval + f and f | interval (all integer ts, f >= 1)', [f >= 1],
        z3.And(interval <= ts, ts < interval + f, interval % f == 0))
  lemma('A2 compute_value(): current_interval aligned and <= now < current_interval + f', [f >= 1, now >= 0],
        z3.And(cur <= now, now < cur + f, cur % f == 0))
  lemma('A3 age threshold = current_interval - MAX * f', [f >= 1, now >= 0, mx >= 0], thr == cur - mx * f)
  return out


from vp_lib.api import S  # noqa: E402

HARNESSES = [
  S('C08_align', _align_lemmas, encodes=['carbon.aggregator.buffers:MetricBuffer.input (interval expression)',
                                         'carbon.aggregator.buffers:MetricBuffer.compute_value (current_interval, age_threshold expressions)'],
    assumptions=['integer timestamps (fractional timestamps: floats as reals are outside this lemma)']),
  H('C08_tick_step', quick=dict(timeout=280, shards=[('m_%s_x%d' % (m, x), 'mi == %d and maxint == %d' % (i, x)) for i, m in enumerate(METHODS) if m in ('sum', 'avg', 'count', 'p95', 'min') for x in range(3)],
                                extra_pre=['p < 16', 'a < 16']),
    thorough=dict(timeout=900, shards=[('m_%s_x%d' % (m, x), 'mi == %d and maxint == %d' % (i, x)) for i, m in enumerate(METHODS) for x in range(4)]),
    covers=['emitted', 'quiet', 'trimmed', 'released'], replay='replay_tick_step', twin_pre=['mi == 0 and p < 32'],
    encodes=['carbon.aggregator.buffers:MetricBuffer.compute_value', 'carbon.aggregator.buffers:IntervalBuffer.mark_inactive',
             'carbon.aggregator.buffers:MetricBuffer.close', 'carbon.aggregator.rules:AGGREGATION_METHODS'],
    assumptions=_ASSUME + ['inductive step: symbolic subset of 5 (quick) / 6 (thorough) interval buffers created in a non-sorted order, each active or inactive since a '
                           'symbolic interval; unbounded symbolic clock; MAX_AGGREGATION_INTERVALS 0..2 / 0..3; every aggregation method']),
  H('C08_late_after_flush', quick=dict(timeout=280, shards=[('n%d' % k, 'n == %d' % k) for k in (2, 3, 4)]), covers=['trimmed', 'late'], replay='replay_late_after_flush',
    twin_pre=['n == 4 and maxint == 1'],
    encodes=['carbon.aggregator.buffers:MetricBuffer.input', 'carbon.aggregator.buffers:MetricBuffer.compute_value (trimming)', 'carbon.aggregator.buffers:IntervalBuffer'],
    assumptions=_ASSUME + ['history through the real input(): 2-4 consecutive intervals filled in one of 8 orders, flush, one late datapoint (symbolic value) for a symbolic interval '
                           '(kept or just trimmed) and optionally one for the newest interval, flush; MAX_AGGREGATION_INTERVALS 0..2; method sum']),
  H('C08_input_step', quick=dict(timeout=280, extra_pre=['p < 16 and a < 16']), thorough=dict(timeout=900), covers=['existing_interval', 'new_interval'],
    replay='replay_input_step',
    encodes=['carbon.aggregator.buffers:MetricBuffer.input', 'carbon.aggregator.buffers:IntervalBuffer.input'], assumptions=_ASSUME),
  H('C08_seq', quick=dict(timeout=280, extra_pre=['n <= 3', 'maxint <= 1'], shards=[('o%d%d' % (a, b), 'o0 == %d and o1 == %d' % (a, b)) for a in (0, 1) for b in (0, 1)]),
    thorough=dict(timeout=1500, shards=[('o%d%d_x%d' % (a, b, x), 'o0 == %d and o1 == %d and maxint == %d' % (a, b, x)) for a in (0, 1) for b in (0, 1) for x in range(3)]),
    covers=['flushed'], replay='replay_seq', twin_pre=['n <= 3 and o0 == 0'],
    encodes=['carbon.aggregator.buffers:MetricBuffer.input', 'carbon.aggregator.buffers:MetricBuffer.compute_value'],
    assumptions=_ASSUME + ['<= 3 (quick) / 4 (thorough) events {datapoint at one of 6 intervals (late, duplicate, out of order, very old), flush after 0/3/10/25 s}, sum rule']),
  H('C08_forward', quick=dict(timeout=200), covers=['ran'],
    encodes=['carbon.aggregator.processor:AggregationProcessor.process'],
    assumptions=['0..3 stub rules each mapping the metric to nothing / another aggregate / an aggregate named like the metric (symbolic); FORWARD_ALL symbolic']),
  H('C08_pattern_fields', quick=dict(timeout=280, shards=[('f%d' % i, 'fi == %d and cache_kind == 0' % i) for i in range(len(FIELD_PATTERNS))] + [('caches%d' % k, 'cache_kind == %d and ni < 40' % k) for k in (1, 2)]),
    thorough=dict(timeout=900, shards=[('f%d' % i, 'fi == %d' % i) for i in range(len(FIELD_PATTERNS))]), covers=['matched', 'missed'],
    encodes=['carbon.aggregator.rules:AggregationRule.build_regex', 'carbon.aggregator.rules:AggregationRule.get_aggregate_metric',
             'carbon.aggregator.rules:AggregationRule.build_template'],
    assumptions=['%d patterns with fields x all %d names of length <= 3 over {a,b,.,x,newline} (symbolic indices)' % (len(FIELD_PATTERNS), len(FIELD_NAMES))]),
  H('C08_pattern', quick=dict(timeout=280, shards=[('p%d' % i, 'pi == %d' % i) for i in range(len(PATTERNS)) if '<' not in PATTERNS[i]], extra_pre=['len(name) <= 3', 'cache_kind <= 1']),
    thorough=dict(timeout=900, shards=[('p%d' % i, 'pi == %d' % i) for i in range(len(PATTERNS)) if '<' not in PATTERNS[i]]),
    covers=['matched', 'missed'], twin_pre=['pi == 1'],
    encodes=['carbon.aggregator.rules:AggregationRule.build_regex', 'carbon.aggregator.rules:AggregationRule.get_aggregate_metric',
             'carbon.aggregator.rules:AggregationRule.build_template', 'carbon.aggregator.rules:get_cache'],
    assumptions=['%d patterns from the documented language (symbolic index); symbolic names of length <= 3 (quick) / 4 over {a,b,x,y,c,".",newline}; '
                 'name cache off / LRU / TTL; CrossHair\'s regex model, every counterexample replayed with the real re' % len(PATTERNS)]),
]
