"""C11 — malformed input is skipped without harming the connection or its neighbours."""
import pickle

from vp_lib.api import H, cover, pick
from vp_lib.carbonenv import make_receiver, drop_receiver, Recorder, quiet
from vp_lib.shadow import shadow_module

import carbon.protocols as real_protocols  # noqa: E402

SHADOW = shadow_module(real_protocols)      # log statements (and their formatting) removed
quiet(real_protocols)
quiet(SHADOW)
INF, NAN = float('inf'), float('nan')


def _mk(mod, kind):
  cls = {'line': mod.MetricLineReceiver, 'udp': mod.MetricDatagramReceiver, 'pickle': mod.MetricPickleReceiver}[kind]
  return make_receiver(cls, connect=(kind != 'udp'))


# ---- raw bytes ----------------------------------------------------------------------------------
def _line_bytes(mod, data):
  p = _mk(mod, 'line')
  try:
    with Recorder():
      p.lineReceived(data)          # any exception escaping here is the violation
  finally:
    drop_receiver(p)
  cover('survived')
  return not p.transport.disconnecting


def C11_line_bytes(data: bytes) -> bool:
  """
  pre: len(data) <= 4
  post: __return__
  """
  return _line_bytes(SHADOW, data)


def replay_line_bytes(data):
  return _line_bytes(real_protocols, data)


def _udp_bytes(mod, data):
  p = _mk(mod, 'udp')
  try:
    with Recorder():
      p.datagramReceived(data, ('host', 1))
  finally:
    drop_receiver(p)
  cover('survived')
  return True


def C11_udp_bytes(data: bytes) -> bool:
  """
  pre: len(data) <= 4
  pre: all(b < 128 for b in data)
  post: __return__
  """
  return _udp_bytes(SHADOW, data)


def replay_udp_bytes(data):
  return _udp_bytes(real_protocols, data)


INVALID = [b'\x80', b'\xff', b'\xc3', b'\xc3(', b'a\xe2\x82 1 2', b'm\xff 1 2', b'\xf0\x9f 3 4', b'm 1\xfe 2', b'\xed\xa0\x80 1 2',
           b'm 1 2\xc3', b'\xff' * 400, b'\xfe' * 401, b'm\xff ' + b'9' * 600]


def _udp_invalid(mod, xi, pos, crlf):
  """A datagram whose lines are two well-formed datapoints and one line that is not valid UTF-8."""
  A, B = b'a.first 1 10', b'b.last 2 20'
  lines = [A, B]
  lines.insert(pos, pick(INVALID, xi))
  sep = b'\r\n' if crlf else b'\n'
  p = _mk(mod, 'udp')
  try:
    with Recorder() as rec:
      p.datagramReceived(sep.join(lines) + sep, ('host', 1))
  finally:
    drop_receiver(p)
  cover('fed')
  if rec.items != [('a.first', (10.0, 1.0)), ('b.last', (20.0, 2.0))]:
    raise AssertionError('well-formed lines of the datagram not accepted as if the bad line were absent: %r' % (rec.items,))
  return True


def C11_udp_invalid(xi: int, pos: int, crlf: bool) -> bool:
  """
  pre: 0 <= xi < len(INVALID)
  pre: 0 <= pos <= 2
  post: __return__
  """
  return _udp_invalid(SHADOW, xi, pos, crlf)


def replay_udp_invalid(xi, pos, crlf):
  return _udp_invalid(real_protocols, xi, pos, crlf)


# ---- field-level: "<metric> <value> <timestamp>" with components from tables ------------------------
NUMS = ['1', '1.5', '-3', '1e3', '+7', '1_0', 'nan', 'inf', '-inf', 'NaN', 'Infinity', '1e999', '', '0x10',
        '１', '1,5', 'abc', '--1', '1e', '.', '9' * 400]


def _well_formed_num(s, is_ts):
  try:
    f = float(s)
  except ValueError:
    return None
  if is_ts and (f != f or f in (INF, -INF)):
    return None                      # non-finite timestamp: malformed
  if f != f:
    return None                      # NaN value never reaches the pipeline (C12)
  return f


def _expect(metric, vs, ts):
  if not metric or any(c.isspace() for c in metric):
    return None
  v, t = _well_formed_num(vs, False), _well_formed_num(ts, True)
  if v is None or t is None:
    return None
  if t < 0:
    return 'outside'                 # negative timestamps (incl. the -1 = now sentinel): outside this oracle
  return (metric, (t, v))


def _fields(mod, kind, vi, ti, extra, metric):
  vs, ts = pick(NUMS, vi), pick(NUMS, ti)
  if extra >= 4:
    line = ['', '   ', '\t'][extra - 4]          # empty / blank lines are malformed items too
  else:
    line = ['%s %s %s', '%s %s', '%s %s %s extra', ' %s  %s\t%s '][extra] % ((metric, vs, ts) if extra != 1 else (metric, vs))
  fields = line.split()
  want = _expect(fields[0], fields[1], fields[2]) if len(fields) == 3 else None
  A, B = ('a.first', (10.0, 1.0)), ('b.last', (20.0, 2.0))
  p = _mk(mod, kind)
  try:
    with Recorder() as rec:
      if kind == 'line':
        p.lineReceived(b'a.first 1 10')
        p.lineReceived(line.encode('utf-8'))
        p.lineReceived(b'b.last 2 20')
      else:
        p.datagramReceived(('a.first 1 10\n' + line + '\nb.last 2 20\n').encode('utf-8'), ('host', 1))
  finally:
    drop_receiver(p)
  if want == 'outside':
    if rec.items[:1] != [A] or rec.items[-1:] != [B] or len(rec.items) > 3:
      raise AssertionError('neighbours disturbed: %r' % (rec.items,))
    return not p.transport.disconnecting
  cover('well_formed' if want is not None else 'malformed')
  expected = [A] + ([want] if want is not None else []) + [B]
  if rec.items != expected:
    raise AssertionError('neighbours disturbed or malformed item delivered: %r' % (rec.items,))
  return not p.transport.disconnecting


def C11_fields(udp: bool, vi: int, ti: int, extra: int, metric: str) -> bool:
  """
  pre: 0 <= vi < len(NUMS) and 0 <= ti < len(NUMS)
  pre: 0 <= extra <= 6
  pre: extra <= 3 or (vi == 0 and ti == 0)
  pre: metric == 'm' or metric == 'µ'
  post: __return__
  """
  return _fields(SHADOW, 'udp' if udp else 'line', vi, ti, extra, metric)


def replay_fields(udp, vi, ti, extra, metric):
  return _fields(real_protocols, 'udp' if udp else 'line', vi, ti, extra, metric)


# ---- pickle frames: what the unpickler may do, and wrong-shaped entries --------------------------
EXC = [pickle.UnpicklingError('x'), ValueError('x'), IndexError('x'), ImportError('x'), KeyError('x'), EOFError('x'),
       UnicodeDecodeError('utf-8', b'\xff', 0, 1, 'invalid start byte'), AttributeError('x'), TypeError('x'),
       OverflowError('x'), MemoryError('x'), RecursionError('x'), SystemError('x'), NotImplementedError('x'),
       ModuleNotFoundError('x'), pickle.PickleError('x'), BufferError('x'), AssertionError('x'), LookupError('x')]
SHAPES = [7, None, 'text', b'bytes', 1.5, True, {'a': 1}, (), [], [7], [None], ['ab'], [()], [('m',)], [('m', 1)],
          [('m', (1,))], [('m', (1, 2, 3))], [('m', None)], [(None, (1, 2))], [(5, (3, 1))], [(b'm', (1, 2))],
          [('m', ('x', 2))], [('m', (1, 'y'))], [('m', (None, 2))], [('m', (INF, 1))], [('m', (NAN, 1))],
          [('m', (10 ** 400, 1))], [('m', (1, 10 ** 400))], [('m', ([1], 2))], [[('m', (1, 2))]], [('m', (1, 2)), 7],
          {'m': (1, 2)}, [('m', (-INF, 1))], [('', (1, 2))], [('m', (1, INF))], [('m', (2, True))], [('m', ('3', '4.5'))]]


def _entry_ok(raw):
  """Reference decoder for one pickle entry (metric, (timestamp, value)) -> delivered datapoint or None."""
  try:
    (metric, (ts, val)) = raw
  except Exception:
    return None
  if not isinstance(metric, str):
    return None
  try:
    t, v = float(ts), float(val)
  except (ValueError, TypeError, OverflowError):
    return None
  if t != t or t in (INF, -INF) or v != v:
    return None
  return (metric, (t, v))


def _frame(mod, which, si, at=1):
  p = _mk(mod, 'pickle')
  A, B = ('a.first', (10, 1)), ('b.last', (20, 2))
  if which < len(EXC):
    result, payload = pick(EXC, which), None
  else:
    shape = pick(SHAPES, si)
    payload = shape
    if isinstance(shape, list):
      payload = [A, B]
      payload[at:at] = shape            # malformed entries before / between / after two good ones
    result = None

  class _U(object):
    @staticmethod
    def loads(data):
      if result is not None:
        raise result
      return payload
  p.unpickler = _U
  try:
    with Recorder() as rec:
      p.stringReceived(b'frame')
      p.unpickler = type('G', (), {'loads': staticmethod(lambda d: [('next.frame', (30, 3))])})
      p.stringReceived(b'next')           # the connection keeps working afterwards
  finally:
    drop_receiver(p)
  nxt = ('next.frame', (30.0, 3.0))
  if result is not None:
    cover('unpickler_raised')
    expected = [nxt]
  elif isinstance(payload, list):
    cover('entries')
    expected = [x for x in (_entry_ok(e) for e in payload) if x is not None and x[1][0] != -1] + [nxt]
  else:
    cover('not_a_list')
    if isinstance(payload, (tuple, dict, str, bytes)):
      # iterable payloads: entries are whatever iteration yields; none of these is a valid entry
      expected = [nxt]
    else:
      expected = [nxt]
  if rec.items != expected:
    raise AssertionError('delivered %r, expected %r' % (rec.items, expected))
  return not p.transport.disconnecting


def C11_frame(which: int, si: int, at: int) -> bool:
  """
  pre: 0 <= which <= len(EXC)
  pre: 0 <= si < len(SHAPES)
  pre: 0 <= at <= 2
  post: __return__
  """
  return _frame(SHADOW, which, si, at)


def replay_frame(which, si, at):
  return _frame(real_protocols, which, si, at)


_ASSUME = ['carbon.protocols executed as a shadow module with log statements (and their message formatting) removed; replay on the real module',
           'framing (LineOnlyReceiver / Int32StringReceiver) is not re-verified here: items are handed to lineReceived / datagramReceived / stringReceived']

_GOOD_FRAME = pickle.dumps([('ok.metric', (1700000060, 1.5))], protocol=2)


def _frame_limit(limit, n, well_formed):
  """Only a frame LONGER than PICKLE_RECEIVER_MAX_LENGTH may close the connection: a frame of up to
  that many payload bytes - garbage or a padded valid pickle - is skipped or accepted, and the frame
  behind it is accepted."""
  import struct
  from vp_lib.cachelab import sset
  old = real_protocols.settings['PICKLE_RECEIVER_MAX_LENGTH']
  sset('PICKLE_RECEIVER_MAX_LENGTH', limit)
  try:
    p = _mk(real_protocols, 'pickle')
  finally:
    sset('PICKLE_RECEIVER_MAX_LENGTH', old)
  if well_formed:
    payload = _GOOD_FRAME + b'\x00' * (n - len(_GOOD_FRAME))       # bytes after the STOP opcode are ignored by the codec
  else:
    payload = bytes(0xF0 + (i % 7) for i in range(n))
  stream = struct.pack('!I', len(payload)) + payload + struct.pack('!I', len(_GOOD_FRAME)) + _GOOD_FRAME
  try:
    with Recorder() as rec:
      p.dataReceived(stream)
  finally:
    drop_receiver(p)
  if len(payload) <= limit:
    cover('within')
    want = (2 if well_formed else 1)
    if p.transport.disconnecting:
      raise AssertionError('connection closed by a frame of %d bytes with the limit at %d' % (len(payload), limit))
    return len(rec.items) == want
  cover('too_long')
  return len(rec.items) == 0


def C11_frame_limit(limit: int, n: int, well_formed: bool) -> bool:
  """
  pre: len(_GOOD_FRAME) + 1 <= limit <= len(_GOOD_FRAME) + 6
  pre: len(_GOOD_FRAME) <= n <= len(_GOOD_FRAME) + 8
  post: __return__
  """
  return _frame_limit(limit, n, well_formed)


HARNESSES = [
  H('C11_line_bytes', quick=dict(timeout=240), thorough=dict(timeout=900, extra_pre=[]), covers=['survived'], replay='replay_line_bytes',
    encodes=['carbon.protocols:MetricLineReceiver.lineReceived', 'carbon.protocols:MetricReceiver.metricReceived'],
    assumptions=_ASSUME + ['symbolic raw bytes, length <= 4; utf-8 codec as modelled by CrossHair']),
  H('C11_udp_bytes', quick=dict(timeout=240, extra_pre=['len(data) <= 3']), thorough=dict(timeout=1200, shards=[('len%d' % n, 'len(data) == %d' % n) for n in range(5)]), covers=['survived'], replay='replay_udp_bytes',
    encodes=['carbon.protocols:MetricDatagramReceiver.datagramReceived', 'carbon.protocols:MetricReceiver.metricReceived'],
    assumptions=_ASSUME + ['symbolic raw ASCII bytes, length <= 2 quick / <= 4 thorough (non-ASCII: C11_udp_invalid and C11_line_bytes; bytes.split on symbolic bytes realises them)']),
  H('C11_udp_invalid', quick=dict(timeout=120), covers=['fed'], replay='replay_udp_invalid',
    encodes=['carbon.protocols:MetricDatagramReceiver.datagramReceived'],
    assumptions=_ASSUME + ['line that is not valid UTF-8 drawn from a table of %d byte strings (symbolic index) at a symbolic position among two well-formed lines' % len(INVALID)]),
  H('C11_fields', quick=dict(timeout=280, shards=[('%s_v%d' % (k, g), '%s and %d <= vi < %d' % (c, g * 7, g * 7 + 7))
                                                  for k, c in (('line', 'not udp'), ('udp', 'udp')) for g in range(3)]), covers=['well_formed', 'malformed'],
    replay='replay_fields',
    encodes=['carbon.protocols:MetricLineReceiver.lineReceived', 'carbon.protocols:MetricDatagramReceiver.datagramReceived'],
    assumptions=_ASSUME + ['value / timestamp text from a table of %d literals (index symbolic), 4 field-count/whitespace templates, metric name m or µ (symbolic names: C01_parse / C11_line_bytes); '
                           'the malformed item sits between two fixed well-formed items (differential oracle: result == stream without it)' % len(NUMS)]),
  H('C11_frame', quick=dict(timeout=280, shards=[('at%d' % k, 'at == %d' % k) for k in range(3)]), covers=['unpickler_raised', 'entries', 'not_a_list'], replay='replay_frame',
    encodes=['carbon.protocols:MetricPickleReceiver.stringReceived'],
    assumptions=_ASSUME + ['C pickle engine replaced by a stub: raises a symbolic choice of %d exception classes (those _pickle.c, find_class and the codecs can raise) '
                           'or returns a symbolic choice of %d wrong-shaped payloads placed before / between / after two good entries' % (len(EXC), len(SHAPES))]),
  H('C11_frame_limit', quick=dict(timeout=200), covers=['within', 'too_long'],
    encodes=['carbon.protocols:MetricPickleReceiver.__init__ (MAX_LENGTH)', 'twisted Int32StringReceiver length check', 'carbon.protocols:MetricPickleReceiver.stringReceived'],
    assumptions=['PICKLE_RECEIVER_MAX_LENGTH symbolic in a window of 6 values, frame length symbolic in a window of 9 around it; garbage or a padded valid pickle, followed by a good frame; real codec']),
]
