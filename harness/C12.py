"""C12 — admission rules: blacklist, whitelist, NaN and timestamp normalisation."""
import os
import re
import shutil
import tempfile

from vp_lib.api import H, cover, pick
from vp_lib.carbonenv import make_receiver, drop_receiver, Recorder, quiet
from vp_lib.cachelab import sset

import carbon.protocols as protocols  # noqa: E402
import carbon.regexlist as regexlist  # noqa: E402
from carbon import instrumentation  # noqa: E402

quiet(protocols)
NAN = float('nan')
VALUES = [1.0, 0.0, -2.5, NAN, float('inf'), float('-inf'), 7, 10 ** 30]
FRACTIONS = [0.25, 1700000060.75, 59.999, -1.0, 0.0]
RESOLUTIONS = [0, 1, 10, 60, 7, 3600]


class ListStub(object):
  """BlackList/WhiteList with symbolic emptiness and symbolic match result (abstracts `re`)."""

  def __init__(self, nonempty, hit):
    self.nonempty, self.hit, self.asked = nonempty, hit, 0

  def __bool__(self):
    return True if self.nonempty else False      # must be a real bool: fork here

  def __contains__(self, metric):
    self.asked += 1
    return True if self.hit else False


class FakeClock(object):
  def __init__(self, now):
    self.now = now

  def time(self):
    return self.now


def _admit(bl_ne, bl_hit, wl_ne, wl_hit, vi, ts_kind, ts_int, rem, fi, ri, now, proto):
  value = VALUES[vi]
  res = RESOLUTIONS[ri]
  q, r = ts_int, rem
  if res and not (0 <= r < res):
    r = 0
  if ts_kind == 0:
    # arbitrary non-negative integer timestamp, written as q*res + r with 0 <= r < res so that the
    # expected floor (q*res) is linear for the solver; res == 0: ts = q
    ts = q * res + r if res else q
  elif ts_kind == 1:
    ts = -1                           # "use the current time"
  else:
    ts = pick(FRACTIONS, fi)
  sset('MIN_TIMESTAMP_RESOLUTION', res)
  cls = [protocols.MetricLineReceiver, protocols.MetricDatagramReceiver, protocols.MetricPickleReceiver][proto]
  p = make_receiver(cls, connect=(proto != 1))
  old = (protocols.BlackList, protocols.WhiteList, protocols.time)
  protocols.BlackList, protocols.WhiteList = ListStub(bl_ne, bl_hit), ListStub(wl_ne, wl_hit)
  protocols.time = FakeClock(now)
  c0 = dict((k, instrumentation.stats.get(k, 0)) for k in ('blacklistMatches', 'whitelistRejects'))
  metric = 'some.metric'
  try:
    with Recorder() as rec:
      p.metricReceived(metric, (ts, value))
  finally:
    protocols.BlackList, protocols.WhiteList, protocols.time = old
    drop_receiver(p)
    sset('MIN_TIMESTAMP_RESOLUTION', 0)
  d_bl = instrumentation.stats.get('blacklistMatches', 0) - c0['blacklistMatches']
  d_wl = instrumentation.stats.get('whitelistRejects', 0) - c0['whitelistRejects']
  blocked = bl_ne and bl_hit
  rejected = (not blocked) and wl_ne and (not wl_hit)
  is_nan = value != value
  if d_bl != (1 if blocked else 0) or d_wl != (1 if rejected else 0):
    raise AssertionError('counters: blacklistMatches +%s whitelistRejects +%s' % (d_bl, d_wl))
  if blocked or rejected or is_nan:
    cover('filtered')
    if rec.items != []:
      raise AssertionError('filtered datapoint reached the pipeline')
    return True
  cover('admitted')
  if len(rec.items) != 1:
    raise AssertionError('admissible datapoint delivered %d times' % len(rec.items))
  (m, (t, v)) = rec.items[0]
  if m != metric or not (v == value) or type(v) is not type(value):   # name and value untouched
    raise AssertionError('name or value altered')
  base = now if ts == -1 else ts                 # -1 means: the current time
  if res:
    # rounded down to a multiple of the resolution
    if ts_kind == 0:
      want = q * res
    elif ts_kind == 1:
      want = None if not (t <= now < t + res) else t      # clock reading is symbolic: bracket it
      if want is not None and (t - (t // res) * res) != 0:
        want = None
    else:
      want = int(base) // res * res                        # concrete
    if want is None or not (t == want):
      raise AssertionError('timestamp not floored to the resolution')
    return True
  if not (t == base):
    raise AssertionError('timestamp altered')
  return True


def C12_admit(bl_ne: bool, bl_hit: bool, wl_ne: bool, wl_hit: bool, vi: int, ts_kind: int, ts_int: int, rem: int,
              fi: int, ri: int, now: int, proto: int) -> bool:
  """
  pre: 0 <= vi < len(VALUES)
  pre: 0 <= ts_kind <= 2
  pre: ts_int >= 0
  pre: rem >= 0
  pre: 0 <= fi < len(FRACTIONS)
  pre: 0 <= ri < len(RESOLUTIONS)
  pre: now >= 0
  pre: 0 <= proto <= 2
  post: __return__
  """
  return _admit(bl_ne, bl_hit, wl_ne, wl_hit, vi, ts_kind, ts_int, rem, fi, ri, now, proto)


# ---- list files: real RegexList.read_list on generated files -----------------------------------
LINES = ['^blocked\\.', 'secret$', '# a comment', '', '   ', '(unclosed', 'b.d', '^(tmp|scratch)\\.', '\\.(\\w+)\\.\\1\\.']
PROBES = ['blocked.x', 'my.secret', 'bxd', 'dc1.web.web.cpu', 'tmp.a', 'x.tmp.a', 'zzz', '(unclosed', 'a.b.c.d']
from vp_lib.api import scratch_dir  # noqa: E402
_TMP = scratch_dir('vp-c12-')
_FILES = {}


def _file_for(idx):
  """Files are generated at import time (outside CrossHair) for every <=3-line choice."""
  return _FILES[idx]


def _gen_files():
  n = len(LINES)
  for a in range(n + 1):
    for b in range(n + 1):
      for c in range(n + 1):
        idx = (a, b, c)
        lines = [LINES[i] for i in idx if i < n]
        path = os.path.join(_TMP, 'list_%d_%d_%d.conf' % idx)
        with open(path, 'w') as fh:
          fh.write(''.join(line + '\n' for line in lines))
        _FILES[idx] = path


_gen_files()


def _valid(line):
  pattern = line.strip()
  if line.startswith('#') or not pattern:
    return None
  try:
    return re.compile(pattern)
  except re.error:
    return None


def C12_read_list(a: int, b: int, c: int) -> bool:
  """
  pre: 0 <= a <= len(LINES) and 0 <= b <= len(LINES) and 0 <= c <= len(LINES)
  post: __return__
  """
  rl = regexlist.RegexList()
  rl.list_file = _file_for((a, b, c))
  old_log = regexlist.log
  quiet(regexlist)
  try:
    rl.read_list()
  finally:
    regexlist.log = old_log
  want = [r for r in (_valid(LINES[i]) for i in (a, b, c) if i < len(LINES)) if r is not None]
  cover('read')
  # semantic oracle (no assumption on how the rules are stored): the list is non-empty iff it has a valid
  # rule, and a name is in it iff some valid line matches it; comment / blank / invalid lines do not
  # disturb the others, and a rule keeps its own groups and back-references
  if bool(rl) != bool(want):
    return False
  for name in PROBES:
    if (name in rl) != any(r.search(name) is not None for r in want):
      raise AssertionError('membership of %r differs from the rules in the file' % name)
  return True


def C12_reload(a: int, b: int, mode: int) -> bool:
  """
  pre: 0 <= a < len(LINES) and 0 <= b < len(LINES)
  pre: 0 <= mode <= 3
  post: __return__
  """
  # the list file is re-read when it changes: rewritten with other content / emptied / deleted / untouched
  import shutil as _sh
  path = os.path.join(_TMP, 'reload_%d_%d_%d.conf' % (a, b, mode))
  _sh.copyfile(_file_for((a, len(LINES), len(LINES))), path)
  os.utime(path, (1000, 1000))
  rl = regexlist.RegexList()
  rl.list_file = path
  old_log = regexlist.log
  quiet(regexlist)
  try:
    rl.read_list()
    first_rules = [r for r in [_valid(LINES[a])] if r is not None]
    first_ok = _same_members(rl, first_rules)
    if mode == 0:
      _sh.copyfile(_file_for((b, len(LINES), len(LINES))), path)
      os.utime(path, (2000, 2000))
      want = [r for r in [_valid(pick(LINES, b))] if r is not None]
    elif mode == 1:
      open(path, 'w').close()
      os.utime(path, (2000, 2000))
      want = []
    elif mode == 2:
      os.remove(path)
      want = []
    else:
      want = first_rules
    rl.read_list()
  finally:
    regexlist.log = old_log
    if os.path.exists(path):
      os.remove(path)
  cover('reloaded')
  return first_ok and _same_members(rl, want)


def _same_members(rl, rules):
  if bool(rl) != bool(rules):
    return False
  for name in PROBES:
    if (name in rl) != any(r.search(name) is not None for r in rules):
      return False
  return True


def C12_contains(name: str, a: int, b: int) -> bool:
  """
  pre: len(name) <= 3
  pre: 0 <= a <= 1 and 0 <= b <= 2
  post: __return__
  """
  pats = [['^blocked\\.', 'secret$'][a]] + ([['b.d', 'a'][b]] if b < 2 else [])
  rl = regexlist.RegexList()
  rl.regex_list = [re.compile(x) for x in pats]
  want = False
  for x in pats:
    if re.search(x, name):
      want = True
  cover('asked')
  return (name in rl) == want


_PP_TS = [(100, '100'), (100.75, '100.75'), (1700000065.25, '1700000065.25')]


def C12_protocol_paths(proto: int, vi: int, which: int, ti: int) -> bool:
  """
  pre: 0 <= proto <= 2
  pre: 0 <= vi <= 2
  pre: 0 <= which <= 2
  pre: 0 <= ti <= 2
  post: __return__
  """
  # the same admission gate sits behind every listener: a parsed datapoint reaches the pipeline
  # only through MetricReceiver.metricReceived (blacklisted => nothing delivered, on all three)
  text_v = ['1.5', 'nan', '3'][vi]
  val = [1.5, NAN, 3.0][vi]
  bl = which == 1
  wl_reject = which == 2
  ts, text_ts = _PP_TS[int(ti)]
  sset('MIN_TIMESTAMP_RESOLUTION', 0)          # no rounding configured: a sub-second timestamp passes unchanged on every protocol
  cls = [protocols.MetricLineReceiver, protocols.MetricDatagramReceiver, protocols.MetricPickleReceiver][proto]
  p = make_receiver(cls, connect=(proto != 1))
  old = (protocols.BlackList, protocols.WhiteList)
  protocols.BlackList, protocols.WhiteList = ListStub(bl, True), ListStub(wl_reject, False)
  try:
    with Recorder() as rec:
      if proto == 0:
        p.lineReceived(('m.x %s %s' % (text_v, text_ts)).encode())
      elif proto == 1:
        p.datagramReceived(('m.x %s %s\n' % (text_v, text_ts)).encode(), ('h', 1))
      else:
        class _U(object):
          @staticmethod
          def loads(data):
            return [('m.x', (ts, val))]
        p.unpickler = _U
        p.stringReceived(b'frame')
  finally:
    protocols.BlackList, protocols.WhiteList = old
    drop_receiver(p)
  cover('fed')
  if bl or wl_reject or vi == 1:
    return rec.items == []
  return rec.items == [('m.x', (float(ts), val))]


_PROTO = [('line', 'proto == 0'), ('udp', 'proto == 1'), ('pickle', 'proto == 2')]

HARNESSES = [
  H('C12_admit', quick=dict(timeout=240, shards=_PROTO), thorough=dict(timeout=600, shards=_PROTO),
    covers=['filtered', 'admitted'],
    encodes=['carbon.protocols:MetricReceiver.metricReceived'],
    assumptions=['BlackList/WhiteList replaced by stubs with symbolic emptiness and symbolic match result (abstracts `re`; the regex path is C12_contains)',
                 'time.time inside carbon.protocols -> symbolic non-negative int clock reading',
                 'timestamp: any non-negative symbolic int, -1, or a table of fractional values; value from a table incl. NaN, +-inf, ints; '
                 'MIN_TIMESTAMP_RESOLUTION from {0,1,10,60,7,3600} (symbolic resolution makes `ts // res * res` non-linear)',
                 'domain: timestamps finite and (>= 0 or == -1), see DESIGN.md 2.5']),
  H('C12_read_list', quick=dict(timeout=280, shards=[('a%d' % k, 'a %% 5 == %d' % k) for k in range(5)]), covers=['read'],
    encodes=['carbon.regexlist:RegexList.read_list', 'carbon.regexlist:RegexList.__bool__'],
    assumptions=['list files of <= 3 lines drawn by symbolic indices from {2 valid patterns, comment, blank, whitespace, invalid, 3rd valid}; files written at import time']),
  H('C12_reload', quick=dict(timeout=280, shards=[('mode%d' % k, 'mode == %d' % k) for k in range(4)], extra_pre=['a <= 2 and b <= 2']), thorough=dict(timeout=600, shards=[('mode%d' % k, 'mode == %d' % k) for k in range(4)]), covers=['reloaded'], twin_pre=['mode == 0 and a <= 1 and b <= 1'],
    encodes=['carbon.regexlist:RegexList.read_list (mtime-based reload)'],
    assumptions=['one-line list file, then rewritten with another line / emptied / deleted / untouched (symbolic choices); mtimes set explicitly']),
  H('C12_contains', quick=dict(timeout=200), thorough=dict(timeout=600, extra_pre=[]), covers=['asked'],
    encodes=['carbon.regexlist:RegexList.__contains__'],
    assumptions=['symbolic metric name of length <= 3 against 1-2 patterns; CrossHair\'s regex model']),
  H('C12_protocol_paths', quick=dict(timeout=120), covers=['fed'],
    encodes=['carbon.protocols:MetricLineReceiver.lineReceived', 'carbon.protocols:MetricDatagramReceiver.datagramReceived',
             'carbon.protocols:MetricPickleReceiver.stringReceived'],
    assumptions=['unpickler stubbed to return the decoded entry list (C codec)']),
]


# ---- engine S: the resolution floor for EVERY resolution (the CrossHair harness uses a table of six) ------------------
def _floor_lemmas(tier):
  import ast
  import inspect
  import textwrap
  import z3
  from vp_lib import pysym
  out = []
  src = ast.parse(textwrap.dedent(inspect.getsource(protocols.MetricReceiver.metricReceived)))
  floor_expr = None
  for node in ast.walk(src):
    if isinstance(node, ast.Assign) and isinstance(node.value, ast.Tuple) and any(isinstance(x, ast.FloorDiv) for x in ast.walk(node.value)):
      floor_expr = node.value
  if floor_expr is None:
    return [dict(name='C12 floor translation', verdict='unknown', detail='no `(int(ts) // res * res, value)` assignment found in metricReceived', queries=0)]
  ts, res, val = z3.Ints('ts res val')
  it = pysym.Interp(pysym.Clock(z3.RealVal(0)))
  fr = {'env': {'datapoint': (ts, val), 'res': res}, 'active': z3.BoolVal(True), 'returned': z3.BoolVal(False), 'ret': None}
  try:
    new_ts, new_val = it.eval(floor_expr, fr)
  except pysym.Unsupported as e:
    return [dict(name='C12 floor translation', verdict='unknown', detail=repr(e), queries=0)]

  def lemma(name, asm, goal):
    v, m, dt = pysym.check(z3.Solver, asm, goal, 60000)
    rec = dict(name=name, verdict=v, model=m, solver_time_s=round(dt, 4), queries=1, detail='')
    if v == 'proved':
      ok, w = pysym.satisfiable(asm)
      rec['witness'] = w
      if not ok:
        rec['verdict'] = 'error'
    out.append(rec)
  lemma('R1 every integer timestamp >= 0 and every resolution >= 1: result <= ts < result + res and res | result',
        [ts >= 0, res >= 1], z3.And(new_ts <= ts, ts < new_ts + res, new_ts % res == 0))
  lemma('R2 the value is passed through untouched', [res >= 1], new_val == val)
  lemma('R3 a timestamp that is already a multiple of the resolution is unchanged', [ts >= 0, res >= 1, ts % res == 0], new_ts == ts)
  return out


def _floor_replay(info):
  m = info['model'] or {}
  ts, res = int(str(m.get('ts', 0))), int(str(m.get('res', 1)))
  got = int(ts) // res * res
  return not (got <= ts < got + res and got % res == 0)


from vp_lib.api import S  # noqa: E402
HARNESSES.append(
  S('C12_floor', _floor_lemmas, replay=_floor_replay,
    encodes=['carbon.protocols:MetricReceiver.metricReceived (the `int(ts) // res * res` expression, translated from the current source)'],
    assumptions=['integer timestamps (int() of a float truncates first; fractional timestamps are covered by the table in C12_admit)']))
