"""C13 — the default unpickler cannot be made to load or call arbitrary globals."""
import io
import pickle

from vp_lib.api import H, cover, boot_carbon
from vp_lib.shadow import shadow
from vp_lib.stubs import LinearMap, LinearSet
from vp_lib.carbonenv import make_receiver, drop_receiver

boot_carbon()
import carbon.util as cutil  # noqa: E402
from carbon.conf import settings  # noqa: E402

# The allow-list this property is about, pinned here: widening it in the source is a violation.
PINNED = (('copy_reg', '_reconstructor'), ('__builtin__', 'object'))
PINNED_MODULES = ('copy_reg', '__builtin__')


class _Canary(object):
  called = 0

  def __call__(self, *a, **k):
    _Canary.called += 1
    return self


class _FakeModule(object):
  def __getattr__(self, name):
    return _Canary()


class _FakeSys(object):
  class _Mods(object):
    def __getitem__(self, name):
      return _FakeModule()
  modules = _Mods()
  version_info = __import__('sys').version_info


def _make_shadow():
  imports = []

  def fake_import(name, *a, **k):
    imports.append(name)
    return _FakeModule()
  Shadow = shadow(cutil.SafeUnpickler, extra_globals={'__import__': fake_import, 'sys': _FakeSys})

  def wrap(table):
    # dict / set lookups hash (realise) a symbolic string: linear ==-maps with the same items;
    # strings, tuples and lists keep their own `in` semantics
    return LinearMap([(k, LinearSet(sorted(v)) if isinstance(v, (set, frozenset)) else v) for k, v in sorted(table.items())])

  def is_table(v):
    return isinstance(v, dict) and v and all(isinstance(k, str) for k in v)
  # the allow-list lives on the class today; also wrap any string-keyed table the method can see at module level
  for holder in (Shadow,):
    for k, v in list(vars(holder).items()):
      if is_table(v):
        setattr(holder, k, wrap(v))
  fc = vars(Shadow)['find_class']
  ns = getattr(fc, '__func__', fc).__globals__
  for k, v in list(ns.items()):
    if is_table(v) and 'SAFE' in k.upper():
      ns[k] = wrap(v)
  return Shadow, imports


SHADOW, IMPORTS = _make_shadow()   # built at import time, outside CrossHair's tracing


def _call_find_class(Shadow, module, name):
  fc = Shadow.__dict__['find_class']
  if isinstance(fc, classmethod):
    return Shadow.find_class(module, name)
  return Shadow(io.BytesIO(b'')).find_class(module, name)


def C13_find_class(module: str, name: str) -> bool:
  """
  post: __return__
  """
  imports = IMPORTS
  del imports[:]
  try:
    _call_find_class(SHADOW, module, name)
  except pickle.UnpicklingError:
    cover('rejected')
    return all(any(m == p for p in PINNED_MODULES) for m in imports)
  cover('accepted')
  ok_pair = any(module == m and name == n for (m, n) in PINNED)
  ok_imports = all(any(m == p for p in PINNED_MODULES) for m in imports)
  return ok_pair and ok_imports


def replay_find_class(module, name):
  """Real, unshadowed find_class: anything off the pinned list must raise UnpicklingError
  (ImportError for the py2-only allow-listed modules is also a rejection)."""
  import builtins
  real = cutil.SafeUnpickler
  seen = []
  orig = builtins.__import__

  def recording_import(modname, *a, **k):
    seen.append(modname)
    return orig(modname, *a, **k)
  builtins.__import__ = recording_import
  try:
    try:
      _call_find_class(real, module, name)
      returned = True
    except (pickle.UnpicklingError, ImportError):
      returned = False
  finally:
    builtins.__import__ = orig
  if any(m not in PINNED_MODULES for m in seen):
    return False          # an import of a module off the allow-list was attempted
  if returned:
    return (module, name) in PINNED
  return True


def C13_select(insecure: bool, setting: bool) -> bool:
  """
  post: __return__
  """
  from carbon import protocols
  u = cutil.get_unpickler(insecure=insecure)
  if (u is cutil.SafeUnpickler) != (not insecure):
    return False
  if cutil.get_unpickler() is not cutil.SafeUnpickler:
    return False
  old = settings.get('USE_INSECURE_UNPICKLER', False)
  settings['USE_INSECURE_UNPICKLER'] = setting
  try:
    ok = True
    for cls in (protocols.MetricPickleReceiver, protocols.CacheManagementHandler):
      p = cls()
      p.transport = _PeerTransport()
      _connect(p)
      cover('connected')
      ok = ok and ((p.unpickler is cutil.SafeUnpickler) == (not setting))
    return ok
  finally:
    settings['USE_INSECURE_UNPICKLER'] = old


class _Peer(object):
  host, port = 'peer', 1


class _PeerTransport(object):
  def getPeer(self):
    return _Peer()

  def pauseProducing(self):
    pass

  def resumeProducing(self):
    pass


def _connect(p):
  from carbon import state
  try:
    p.connectionMade()
  finally:
    state.connectedMetricReceiverProtocols.discard(p)
    try:
      p.setTimeout(None)
    except Exception:
      pass


class _ForbiddenPickle(object):
  """Stands in for the stock `pickle` module inside carbon.protocols while a frame is handled:
  exception classes stay available, every entry point that unpickles is a canary."""
  used = 0

  def __init__(self, real):
    self._real = real

  def __getattr__(self, name):
    if name in ('loads', 'load', 'Unpickler', '_Unpickler', '_loads', '_load'):
      _ForbiddenPickle.used += 1
      raise AssertionError('stock unpickler used')
    return getattr(self._real, name)


_EXC = [pickle.UnpicklingError('x'), ValueError('x'), IndexError('x'), ImportError('x'), KeyError('x'),
        EOFError('x'), UnicodeDecodeError('utf-8', b'\xff', 0, 1, 'invalid start byte'),
        AttributeError('x'), TypeError('x'), OverflowError('x'), MemoryError('x'), RecursionError('x')]


def C13_no_fallback(which: int, proto: int) -> bool:
  """
  pre: 0 <= which <= len(_EXC)
  pre: 0 <= proto <= 1
  post: __return__
  """
  # whatever the safe unpickler does with a frame (raise any of the exception classes the C engine
  # can raise, or return data), the protocol must not fall back to an unrestricted unpickler.
  from carbon import protocols
  cls = protocols.MetricPickleReceiver if proto == 0 else protocols.CacheManagementHandler
  old = settings.get('USE_INSECURE_UNPICKLER', False)
  settings['USE_INSECURE_UNPICKLER'] = False
  real_pickle = protocols.pickle
  p = None
  try:
    p = make_receiver(cls)

    class _Stub(object):
      @staticmethod
      def loads(data):
        if which < len(_EXC):
          raise _EXC[which]
        return [('a.b', (1.0, 2.0))] if proto == 0 else {'type': 'cache-query', 'metric': 'a.b'}
    if p.unpickler is not cutil.SafeUnpickler:
      return False
    p.unpickler = _Stub
    p.sendString = lambda data: None
    _ForbiddenPickle.used = 0
    protocols.pickle = _ForbiddenPickle(real_pickle)
    try:
      p.stringReceived(b'frame')
    except Exception:
      pass            # escaping exceptions are C11's subject, not C13's
    finally:
      protocols.pickle = real_pickle
    cover('handled')
    return _ForbiddenPickle.used == 0
  finally:
    protocols.pickle = real_pickle
    settings['USE_INSECURE_UNPICKLER'] = old
    if p is not None and proto == 0:
      drop_receiver(p)


from crosshair.tracers import NoTracing  # noqa: E402

SPELLINGS = [('False', False), ('false', False), ('no', False), ('off', False), ('0', False), (None, False),
             ('True', True), ('true', True), ('yes', True), ('on', True), ('1', True)]
_CONF_DIR = None


def C13_config(si: int, sj: int) -> bool:
  """
  pre: 0 <= si < len(SPELLINGS)
  pre: -1 <= sj < len(SPELLINGS)
  post: __return__
  """
  # USE_INSECURE_UNPICKLER as the daemon reads it from carbon.conf (carbon.conf:read_config, the [cache]
  # section overlaid by the instance section when an instance is named): only an explicit true spelling
  # in the section that wins switches the safe unpickler off; an instance may switch it back off.
  import carbon.conf as conf
  si, sj = int(si), int(sj)
  text, want = SPELLINGS[si]
  if sj >= 0 and SPELLINGS[sj][0] is not None:
    want = SPELLINGS[sj][1]
  path = _CONF_FILES[(si, sj)]
  options = {'config': path, 'instance': ('b' if sj >= 0 else None), 'pidfile': None, 'logdir': None}
  with NoTracing():          # every input is concrete here; conf.py's dict subclass trips CrossHair's proxies otherwise
    st = conf.read_config('carbon-cache', options, ROOT_DIR=_CONF_ROOT)
    insecure = True if st.USE_INSECURE_UNPICKLER else False
  cover('read')
  if sj >= 0:
    cover('instance')
  u = cutil.get_unpickler(insecure=st.USE_INSECURE_UNPICKLER)
  return (u is cutil.SafeUnpickler) == (not want) and insecure == want


def _gen_conf():
  import os
  from vp_lib.api import scratch_dir
  d = scratch_dir('vp-c13-')
  out = {}
  for si, (text, want) in enumerate(SPELLINGS):
    for sj in range(-1, len(SPELLINGS)):
      path = os.path.join(d, 'carbon-%d-%d.conf' % (si, sj))
      line = '' if text is None else 'USE_INSECURE_UNPICKLER = %s\n' % text
      with open(path, 'w') as fh:
        fh.write('[cache]\nMAX_CACHE_SIZE = inf\n%s' % line)
        if sj >= 0:
          t2 = SPELLINGS[sj][0]
          fh.write('\n[cache:b]\nLINE_RECEIVER_PORT = 2103\n%s' % ('' if t2 is None else 'USE_INSECURE_UNPICKLER = %s\n' % t2))
      out[(si, sj)] = path
  return out, d


_CONF_FILES, _CONF_ROOT = _gen_conf()


def C13_default_setting() -> bool:
  """
  post: __return__
  """
  from carbon.conf import defaults
  return defaults.get('USE_INSECURE_UNPICKLER') is False


HARNESSES = [
  H('C13_find_class', quick=dict(timeout=60), thorough=dict(timeout=120), covers=['rejected', 'accepted'],
    end=False, replay='replay_find_class',
    encodes=['carbon.util:SafeUnpickler.find_class (shadow: message formatting removed)'],
    assumptions=['__import__/sys.modules replaced by a recording fake that "imports" any name and exposes canary attributes',
                 'PICKLE_SAFE (read from the real class at run time) wrapped in a linear ==-map: dict lookup would hash (realise) the symbolic string',
                 'CPython fact: every opcode route to a global (GLOBAL, STACK_GLOBAL, INST, OBJ/NEWOBJ via a class pushed by those, REDUCE, BUILD, EXT*) obtains the global through Unpickler.find_class']),
  H('C13_select', quick=dict(timeout=60), covers=['connected'],
    encodes=['carbon.util:get_unpickler', 'carbon.protocols:MetricPickleReceiver.connectionMade',
             'carbon.protocols:CacheManagementHandler.connectionMade']),
  H('C13_no_fallback', quick=dict(timeout=120, shards=[('line', 'proto == 0'), ('query', 'proto == 1')]), covers=['handled'],
    encodes=['carbon.protocols:MetricPickleReceiver.stringReceived', 'carbon.protocols:CacheManagementHandler.stringReceived'],
    assumptions=['the safe unpickler is replaced by a stub that raises a symbolic choice of exception class or returns data; '
                 'the name `pickle` inside carbon.protocols is replaced by a proxy whose unpickling entry points are canaries '
                 '(pickle.dumps for the query response stays real)']),
  H('C13_config', quick=dict(timeout=200), covers=['read', 'instance'],
    encodes=['carbon.conf:read_config (program section overlaid by the instance section)', 'carbon.conf:Settings.readFrom (type coercion of USE_INSECURE_UNPICKLER)', 'carbon.util:get_unpickler'],
    assumptions=['carbon.conf files with the setting spelled %d ways (or absent) in [cache] or an instance section, symbolic index' % len(SPELLINGS)]),
  H('C13_default_setting', quick=dict(timeout=30), encodes=['carbon.conf:defaults']),
]


# ---- opcode routes to a global, on the REAL C unpickler ---------------------------------------------------------------------
import builtins  # noqa: E402
import copyreg  # noqa: E402
import carbon.protocols as _protocols  # noqa: E402
import struct  # noqa: E402
import sys  # noqa: E402
import types  # noqa: E402
from vp_lib.api import pick  # noqa: E402

_canary_mod = types.ModuleType('vp_canary')
_canary_hits = []


def _hit(*a, **k):
  _canary_hits.append(a)
  return 0


class _CanaryClass(object):
  def __init__(self, *a, **k):
    _canary_hits.append(('init',) + a)

  def __setstate__(self, st):
    _canary_hits.append(('setstate', st))


_canary_mod.hit = _hit
_canary_mod.Klass = _CanaryClass
sys.modules['vp_canary'] = _canary_mod
GLOBALS = [('vp_canary', 'hit'), ('vp_canary', 'Klass'), ('os', 'system'), ('builtins', 'eval'), ('builtins', 'object'), ('builtins', 'getattr'),
           ('copyreg', '_reconstructor'), ('__builtin__', 'eval'), ('copy_reg', 'add_extension'), ('subprocess', 'Popen'),
           ('carbon.util', 'SafeUnpickler'), ('pickle', 'loads'), ('__builtin__.x', 'object'), ('copy_reg', '_reconstructor.__globals__'),
           ('__builtin__', 'object'), ('copy_reg', '_reconstructor')]
ROUTES = ['GLOBAL', 'STACK_GLOBAL', 'INST', 'OBJ', 'NEWOBJ', 'NEWOBJ_EX', 'REDUCE', 'BUILD', 'EXT1']
_EXT_CODE = 0xF0


def _global_ref(route, module, name):
  m, n = module.encode('utf-8'), name.encode('utf-8')
  if route == 'STACK_GLOBAL':
    return b'\x8c' + bytes([len(m)]) + m + b'\x8c' + bytes([len(n)]) + n + b'\x93'
  return b'c' + m + b'\n' + n + b'\n'


def _program(route, proto, module, name, depth):
  """A pickle program that reaches (module, name) through `route`, nested `depth` levels inside a
  well-formed datapoint list."""
  m, n = module.encode('utf-8'), name.encode('utf-8')
  g = _global_ref('STACK_GLOBAL' if route == 'STACK_GLOBAL' else 'GLOBAL', module, name)
  if route in ('GLOBAL', 'STACK_GLOBAL'):
    body = g
  elif route == 'INST':
    body = b'(' + b'i' + m + b'\n' + n + b'\n'
  elif route == 'OBJ':
    body = b'(' + g + b'o'
  elif route == 'NEWOBJ':
    body = g + b')' + b'\x81'
  elif route == 'NEWOBJ_EX':
    body = g + b')' + b'}' + b'\x92'
  elif route == 'REDUCE':
    body = g + b'(K\x01tR'
  elif route == 'BUILD':
    body = g + b')\x81' + b'}b'
  else:
    body = b'\x82' + bytes([_EXT_CODE])
  for _ in range(depth):
    body = b'(' + body + b't'                      # wrap in a tuple
  prog = b']' + b'(' + b'X\x01\x00\x00\x00m' + body + b'\x86' if False else b'](' + body + b'e'
  head = (b'\x80' + bytes([proto])) if proto >= 2 else b''
  return head + prog + b'.'


def _route(ri, proto, gi, depth, via_protocol):
  route, (module, name) = pick(ROUTES, ri), pick(GLOBALS, gi)
  if route == 'STACK_GLOBAL' and proto < 4:
    return True
  if route in ('NEWOBJ', 'BUILD') and proto < 2 or route == 'NEWOBJ_EX' and proto < 4:
    return True
  data = _program(route, proto, module, name, depth)
  if route == 'EXT1':
    try:
      copyreg.add_extension(module, name, _EXT_CODE)
    except ValueError:
      return True
  seen = []
  orig = builtins.__import__

  def recording_import(modname, *a, **k):
    if sys._getframe(1).f_code.co_name == 'find_class':      # imports made by the unpickler's hook only
      seen.append(modname)
    return orig(modname, *a, **k)
  del _canary_hits[:]
  builtins.__import__ = recording_import
  try:
    try:
      if via_protocol:
        p = make_receiver(_protocols.MetricPickleReceiver)
        try:
          p.dataReceived(struct.pack('!I', len(data)) + data)
        finally:
          drop_receiver(p)
        result = ('protocol',)
      else:
        result = ('value', cutil.SafeUnpickler.loads(data))
    except (pickle.UnpicklingError, ImportError, AttributeError, TypeError, ValueError, IndexError, KeyError, EOFError) as e:
      result = ('raised', type(e).__name__)
  finally:
    builtins.__import__ = orig
    if route == 'EXT1':
      copyreg.remove_extension(module, name, _EXT_CODE)
  cover('ran')
  if _canary_hits:
    raise AssertionError('a global off the allow-list was called: %r via %s' % (_canary_hits[:1], route))
  bad = [m for m in seen if m not in PINNED_MODULES]
  if bad:
    raise AssertionError('import of %r attempted via %s' % (bad, route))
  if (module, name) not in PINNED and result[0] == 'value':
    raise AssertionError('%s.%s reached through %s was not rejected: %r' % (module, name, route, result[1]))
  return True


def C13_routes(ri: int, proto: int, gi: int, depth: int, via_protocol: bool) -> bool:
  """
  pre: 0 <= ri < len(ROUTES)
  pre: 0 <= proto <= 5
  pre: 0 <= gi < len(GLOBALS)
  pre: 0 <= depth <= 2
  post: __return__
  """
  return _route(ri, proto, gi, depth, via_protocol)


HARNESSES.append(
  H('C13_routes', quick=dict(timeout=280, shards=[('r%d_%s' % (i, r), 'ri == %d' % i) for i, r in enumerate(ROUTES)], extra_pre=['depth <= 1', 'gi % 2 == 0 or proto == 2']),
    thorough=dict(timeout=900, shards=[('r%d_%s' % (i, r), 'ri == %d' % i) for i, r in enumerate(ROUTES)]), covers=['ran'], twin_pre=['ri == 0'],
    encodes=['carbon.util:SafeUnpickler.loads (real C engine)', 'carbon.util:SafeUnpickler.find_class', 'carbon.protocols:MetricPickleReceiver.dataReceived'],
    assumptions=['concrete opcode programs for 9 routes to a global x protocols 0-5 x %d (module, name) pairs incl. canaries, nesting depth 0-2 inside a list, '
                 'run on the real C unpickler (symbolic indices select the program; this checks on this interpreter the CPython fact that every route goes through find_class)' % len(GLOBALS)]))
