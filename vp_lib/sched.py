"""Thread schedules as solver variables: statement-level coroutines of carbon's real code.

`coroutinise(module, targets, receivers)` re-executes the module's CURRENT source with an AST pass that
turns the named functions/methods into generators:
  * `yield ('line', <lineno>)` before every statement (at every nesting level),
  * `with <x>.lock:`  ->  atomic try-acquire loop yielding ('blocked', <lineno>) while the cooperative
    lock is held, body, release in `finally`,
  * calls to other target functions (receiver in `receivers`)  ->  `yield from`.
The transformed code IS carbon's code at statement granularity; a scheduler decides which coroutine
advances.  Schedules are encoded as a few symbolic preemption indices (not as bit-vectors).
Message formatting / log statements are stripped as in shadow.shadow_module.
"""
import ast
import inspect
import types

from vp_lib.shadow import _MsgStripper


class CoopLock(object):
  """Cooperative lock: try_acquire is atomic (no yield between test and set)."""

  def __init__(self):
    self.held = False
    self.owner = None

  def try_acquire(self, who=None):
    if self.held:
      return False
    self.held, self.owner = True, who
    return True

  def release(self):
    self.held, self.owner = False, None

  # so that untransformed code using `with lock:` still works when uncontended
  def __enter__(self):
    if not self.try_acquire():
      raise RuntimeError('cooperative lock contended outside a coroutine')
    return self

  def __exit__(self, *a):
    self.release()
    return False


def _yield_stmt(kind, node):
  y = ast.Expr(value=ast.Yield(value=ast.Tuple(elts=[ast.Constant(kind), ast.Constant(getattr(node, 'lineno', 0))], ctx=ast.Load())))
  return ast.copy_location(y, node)


class _Coroutiniser(ast.NodeTransformer):
  def __init__(self, targets, receivers, call_targets=None):
    self.targets, self.receivers = set(targets), set(receivers)
    self.call_targets = set(call_targets) if call_targets is not None else set(targets)
    self.in_target = 0
    self.transformed = []

  # ---- which calls become `yield from` ----
  def _is_target_call(self, node):
    if isinstance(node, ast.Call) and isinstance(node.func, ast.Name):
      return node.func.id in self.targets          # module-level target called by its bare name
    if not isinstance(node, ast.Call) or not isinstance(node.func, ast.Attribute):
      return False
    if node.func.attr not in self.call_targets:
      return False
    recv = ast.unparse(node.func.value)
    return recv in self.receivers

  def visit_Call(self, node):
    self.generic_visit(node)
    if self.in_target and self._is_target_call(node):
      return ast.copy_location(ast.YieldFrom(value=node), node)
    return node

  def visit_Lambda(self, node):
    return node

  def _block(self, stmts):
    out = []
    for st in stmts:
      new = self.visit(st)
      new = new if isinstance(new, list) else [new]
      if isinstance(st, (ast.FunctionDef, ast.ClassDef)) or (
          isinstance(st, ast.Expr) and isinstance(st.value, ast.Constant) and isinstance(st.value.value, str)):
        out.extend(new)               # nested definitions and docstrings are not execution steps
        continue
      out.append(_yield_stmt('line', st))
      out.extend(new)
    return out

  def visit_FunctionDef(self, node):
    if self.in_target:
      return node                      # nested helper (e.g. generator factories): left as is
    if node.name not in self.targets:
      return node
    self.in_target += 1
    try:
      node.body = self._block(node.body)
    finally:
      self.in_target -= 1
    self.transformed.append(node.name)
    return node

  def visit_ClassDef(self, node):
    node.body = [self.visit(n) for n in node.body]
    return node

  def _compound(self, node):
    for field in ('body', 'orelse', 'finalbody'):
      if getattr(node, field, None):
        setattr(node, field, self._block(getattr(node, field)))
    if isinstance(node, ast.Try):
      for h in node.handlers:
        h.body = self._block(h.body)
    return node

  def visit_If(self, node):
    if not self.in_target:
      return node
    node.test = self.visit(node.test)
    return self._compound(node)

  def visit_While(self, node):
    if not self.in_target:
      return node
    node.test = self.visit(node.test)
    return self._compound(node)

  def visit_For(self, node):
    if not self.in_target:
      return node
    node.iter = self.visit(node.iter)
    return self._compound(node)

  def visit_Try(self, node):
    if not self.in_target:
      return node
    return self._compound(node)

  def visit_With(self, node):
    if not self.in_target:
      return node
    item = node.items[0]
    src = ast.unparse(item.context_expr)
    body = self._block(node.body)
    if len(node.items) == 1 and src.endswith('.lock') and item.optional_vars is None:
      acquire = ast.parse('while not %s.try_acquire():\n  yield ("blocked", %d)' % (src, node.lineno)).body[0]
      tr = ast.Try(body=body, handlers=[], orelse=[], finalbody=[ast.parse('%s.release()' % src).body[0]])
      return [ast.copy_location(acquire, node), ast.copy_location(tr, node)]
    node.body = body
    return node


def coroutinise(mod, targets, receivers, extra_globals=None, call_targets=None):
  with open(inspect.getsourcefile(mod)) as fh:
    src = fh.read()
  tree = ast.parse(src)
  tree = _MsgStripper().visit(tree)
  co = _Coroutiniser(targets, receivers, call_targets)
  tree = co.visit(tree)
  missing = set(targets) - set(co.transformed)
  ast.fix_missing_locations(tree)
  new = types.ModuleType(mod.__name__ + '__coroutines')
  new.__file__ = '<coroutines of %s>' % mod.__name__
  new.__package__ = mod.__package__
  if extra_globals:
    new.__dict__.update(extra_globals)
  exec(compile(tree, new.__file__, 'exec'), new.__dict__)
  new.__vp_transformed__ = sorted(set(co.transformed))
  new.__vp_missing__ = sorted(missing)
  new.__vp_source__ = ast.unparse(tree)
  return new


def run_to_end(gen):
  """Drive one coroutine alone to completion and return its value."""
  try:
    while True:
      next(gen)
  except StopIteration as e:
    return e.value


END = -1          # pseudo line number closing a thread's part of a trace


class Deadlock(Exception):
  pass


class Thread(object):
  def __init__(self, name, gen):
    self.name, self.gen = name, gen
    self.done, self.value, self.error = False, None, None
    self.steps = 0
    self.blocked = False

  def step(self, trace=None):
    """Advance by one statement.  Returns 'ran', 'blocked' or 'done'."""
    if self.done:
      return 'done'
    try:
      ev = next(self.gen)
    except StopIteration as e:
      self.done, self.value = True, e.value
      if trace is not None:
        trace.append((self.name, END))     # the thread's last statement has now been executed
      return 'done'
    except Exception as e:                 # an exception escaping the thread's code ends the thread
      self.done, self.error = True, e
      if trace is not None:
        trace.append((self.name, END))
      return 'done'
    self.blocked = (ev[0] == 'blocked')
    if not self.blocked:
      self.steps += 1
      if trace is not None:
        trace.append((self.name, ev[1]))
      return 'ran'
    return 'blocked'


def run_plan(threads, plan, on_step=None, limit=400):
  """threads: dict name -> Thread.  plan: list of (name, nsteps): run that thread for up to nsteps
  statements (it stops early when it blocks or finishes); afterwards everything runs to completion
  (first listed thread first), switching on 'blocked'.  Returns the statement trace."""
  trace = []
  total = 0
  for name, n in plan:
    t = threads[name]
    k = 0
    while k < n and not t.done:
      r = t.step(trace)
      total += 1
      if r == 'blocked' or r == 'done':
        break
      k += 1
      if on_step is not None:
        on_step(t)
  order = list(threads)
  while not all(threads[n].done for n in order):
    progressed = False
    for name in order:
      t = threads[name]
      while not t.done:
        r = t.step(trace)
        total += 1
        if total > limit:
          raise Deadlock('step limit exceeded')
        if r == 'blocked':
          break
        progressed = True
        if r == 'ran' and on_step is not None:
          on_step(t)
    if not progressed:
      raise Deadlock('all threads blocked')
  return trace
