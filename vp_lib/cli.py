"""./verify <ID> [--tier quick|thorough] | ./verify --replay <file>"""
import argparse
import os
import sys

from vp_lib import runner


def main():
  ap = argparse.ArgumentParser()
  ap.add_argument('property', nargs='?')
  ap.add_argument('--tier', default=os.environ.get('VERIF_TIER', 'quick'), choices=['quick', 'thorough'])
  ap.add_argument('--replay')
  ap.add_argument('--only', action='append')
  ap.add_argument('--keep-work', action='store_true')
  ap.add_argument('--jobs', type=int)
  a = ap.parse_args()
  if a.replay:
    ok, detail = runner._replay_file(os.path.abspath(a.replay))
    print(detail)
    if ok:
      import json
      pid = json.load(open(a.replay)).get('property', '?')
      print('VIOLATION property=%s replay=%s' % (pid, a.replay))
      return 1
    return 0 if ok is False else 3
  seed = int(os.environ.get('VERIF_SEED', '0') or 0)
  return runner.check(a.property, a.tier, seed=seed, jobs=a.jobs, only=a.only, keep_work=a.keep_work)


if __name__ == '__main__':
  sys.exit(main())
