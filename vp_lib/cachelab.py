"""Shared machinery for the cache properties (C02, C10, C17): symbolic pre-states of a real
_MetricCache, the limit arithmetic read from conf.py's current source, invariants."""
import ast

from vp_lib.api import boot_carbon
from vp_lib.shadow import shadow_module, extract_statements

boot_carbon()
import carbon.cache as real_cache  # noqa: E402
import carbon.conf as real_conf  # noqa: E402
from carbon.conf import settings  # noqa: E402
from carbon import events, state  # noqa: E402

SHADOW = shadow_module(real_cache)      # built at import time, outside CrossHair's tracing
STRATEGY_NAMES = [None, 'naive', 'max', 'sorted', 'timesorted', 'random', 'bucketmax']
_CLASSES = {None: None, 'naive': 'NaiveStrategy', 'max': 'MaxStrategy', 'sorted': 'SortedStrategy',
            'timesorted': 'TimeSortedStrategy', 'random': 'RandomStrategy', 'bucketmax': 'BucketMaxStrategy'}
METRICS = ['a', 'b', 'c']
STAMPS = [10, 20, 30]


def strategy_class(mod, idx):
  name = _CLASSES[STRATEGY_NAMES[idx]]
  return getattr(mod, name) if name else None


# --- conf.py:300-304, taken from the current source ---------------------------------------
def _limit_code():
  stmts = extract_statements(
    real_conf, lambda n, seg: isinstance(n, (ast.Assign, ast.If)) and 'CACHE_SIZE_' in seg
    and len(seg) < 400 and not isinstance(n, ast.FunctionDef))
  # keep outermost statements only (the `if USE_FLOW_CONTROL` contains two assigns)
  keep = []
  for s in stmts:
    if not any(s is not o and o.lineno <= s.lineno and s.end_lineno <= o.end_lineno for o in stmts):
      keep.append(s)
  if not keep:
    raise LookupError('conf.py no longer derives CACHE_SIZE_* limits where expected')
  m = ast.Module(body=keep, type_ignores=[])
  ast.fix_missing_locations(m)
  return compile(m, '<conf.py cache limits>', 'exec'), ast.unparse(m)


_LIMIT_CODE, LIMIT_SOURCE = _limit_code()


def sset(key, value):
  """Settings is a dict whose attribute reads fall back to items; conf.py sets the derived limits
  as instance attributes.  Keep everything in the dict so that there is one source of truth."""
  settings.__dict__.pop(key, None)
  settings[key] = value


def apply_limits(max_cache_size, flow_control):
  """Set MAX_CACHE_SIZE / USE_FLOW_CONTROL and derive the watermarks the way conf.py does."""
  from vp_lib.stubs import Q
  finite = not (isinstance(max_cache_size, float) and max_cache_size == float('inf'))
  # conf.py's own statements are executed on exact rationals (see stubs.Q) instead of floats
  sset('MAX_CACHE_SIZE', Q(max_cache_size, 1) if finite else max_cache_size)
  sset('USE_FLOW_CONTROL', flow_control)
  exec(_LIMIT_CODE, {'settings': settings})
  for k in list(settings.__dict__):
    settings[k] = settings.__dict__.pop(k)
  # MAX_CACHE_SIZE stays a Q too: `symbolic_int == float('inf')` is an FP query (3 s, unknown)
  sset('LOG_CACHE_QUEUE_SORTS', False)


class Events(object):
  """Counts overflow / full / space events for one harness run."""

  def __init__(self):
    self.overflow = 0
    self.full = 0
    self.space = 0

  def _o(self):
    self.overflow += 1

  def _f(self):
    self.full += 1

  def _s(self):
    self.space += 1

  def __enter__(self):
    events.cacheOverflow.addHandler(self._o)
    events.cacheFull.addHandler(self._f)
    events.cacheSpaceAvailable.addHandler(self._s)
    return self

  def __exit__(self, *a):
    events.cacheOverflow.removeHandler(self._o)
    events.cacheFull.removeHandler(self._f)
    events.cacheSpaceAvailable.removeHandler(self._s)
    return False


class FakeTime(object):
  def __init__(self, now=1000.0):
    self.now = now

  def time(self):
    return self.now


def build(mod, strat, bits, vals, ghost, now=1000.0):
  """Real _MetricCache holding (METRICS[i], STAMPS[j]) -> vals[2*i+j] for i,j in {0,1} where the
  presence bit is set, built through the real store() (so strategy bookkeeping and new_metrics
  are whatever the real code makes them), plus `ghost` datapoints of metrics not materialised."""
  sset('MAX_CACHE_SIZE', float('inf'))
  sset('CACHE_SIZE_HARD_MAX', float('inf'))
  sset('CACHE_SIZE_LOW_WATERMARK', float('inf'))
  sset('USE_FLOW_CONTROL', False)
  sset('LOG_CACHE_QUEUE_SORTS', False)
  sset('MIN_TIMESTAMP_LAG', 0)
  state.cacheTooFull = False
  mod.time = FakeTime(now)
  mod.choice = lambda seq: seq[0]          # random strategy: harnesses that care install a symbolic pick
  cache = mod._MetricCache(strategy_class(mod, strat))
  k = 0
  for i in (0, 1):
    for j in (0, 1):
      if bits[k]:
        cache.store(METRICS[i], (STAMPS[j], vals[k]))
      k += 1
  cache.size += ghost
  return cache


def contents(cache):
  return dict((m, dict(d)) for m, d in cache.items())


def held(cache):
  return sum(len(d) for d in cache.values())


def bookkeeping_ok(cache, strat):
  """Representation invariant of the strategy bookkeeping (bucketmax: a metric with n > 0
  datapoints sits in bucket n-1 exactly once and nowhere else)."""
  if STRATEGY_NAMES[strat] != 'bucketmax':
    return True
  buckets = cache.strategy.buckets
  for m, d in cache.items():
    n = len(d)
    cnt = 0
    for bi in range(len(buckets)):
      for x in buckets[bi]:
        if x == m:
          cnt += 1
          if bi != n - 1:
            return False
    if n > 0 and cnt != 1:
      return False
    if n == 0 and cnt != 0:
      return False
  return True
