"""Helpers to drive carbon's protocol objects without a reactor (shared by harnesses)."""
from vp_lib.api import boot_carbon

boot_carbon()
from carbon import state, events  # noqa: E402


class Peer(object):
  host, port = 'peer', 1


class RecTransport(object):
  """Minimal transport recording what the protocol does to it."""

  def __init__(self):
    self.written = []
    self.disconnecting = False
    self.paused = 0
    self.resumed = 0
    self.producer = None

  def getPeer(self):
    return Peer()

  def write(self, data):
    self.written.append(data)

  def writeSequence(self, seq):
    self.written.extend(seq)

  def loseConnection(self):
    self.disconnecting = True

  def pauseProducing(self):
    self.paused += 1

  def resumeProducing(self):
    self.resumed += 1

  def registerProducer(self, producer, streaming):
    self.producer = producer

  def unregisterProducer(self):
    self.producer = None


def make_receiver(cls, connect=True):
  """Instance of a carbon listener protocol, connected to a RecTransport, idle timeouts disabled
  (TimeoutMixin would otherwise schedule calls on the real reactor and read the clock)."""
  p = cls()
  p.transport = RecTransport()
  p.setTimeout = lambda *a, **k: None
  p.resetTimeout = lambda *a, **k: None
  if connect:
    p.connectionMade()
  return p


def drop_receiver(p):
  state.connectedMetricReceiverProtocols.discard(p)
  events.pauseReceivingMetrics.removeHandler(p.pauseReceiving)
  events.resumeReceivingMetrics.removeHandler(p.resumeReceiving)


class Recorder(object):
  """Handler on events.metricReceived recording what reaches the pipeline."""

  def __init__(self, event=None):
    self.items = []
    self.event = event or events.metricReceived

  def __call__(self, metric, datapoint):
    self.items.append((metric, datapoint))

  def __enter__(self):
    self.items = []
    self.event.addHandler(self)
    return self

  def __exit__(self, *a):
    self.event.removeHandler(self)
    return False


class NullLog(object):
  """carbon.log stand-in: every logger is a no-op (the real ones read the clock and format)."""

  def __getattr__(self, name):
    return lambda *a, **k: None


def quiet(module):
  """Replace the `log` name inside a carbon module by a NullLog (message text is not part of any
  property; the formatting expression at the call site is still evaluated by the real code)."""
  if hasattr(module, 'log'):
    module.log = NullLog()
  return module
