"""Harness-side API: declaration of obligations, coverage marks, carbon bootstrap."""
import os
import sys

VERIF = os.path.dirname(os.path.dirname(os.path.abspath(__file__)))
REPO = os.environ.get('VERIF_REPO', '/repo')
FIXTURES = os.path.join(VERIF, 'fixtures')


class Reached(Exception):
  """Raised (only in a reachability twin) when the marked point is reached."""


_TARGET = None


def cover(tag):
  """Mark an assertion-relevant point.  No-op in the real harness; in the reachability
  twin generated for `tag` it raises, which CrossHair must report as a counterexample
  (= a concrete witness that the point is reachable under the harness preconditions)."""
  if _TARGET is not None and _TARGET == tag:
    raise Reached(tag)


def _ret(value):
  """Twins only: reaching a `return` is the 'end' mark; for any other mark the harness verdict
  is irrelevant (only Reached may refute a twin), so the twin returns True."""
  if _TARGET == 'end':
    raise Reached('end')
  return True


def pick(table, idx):
  """table[idx] with the index decided by explicit branching, so that the result is the CONCRETE
  table element (CrossHair otherwise builds a symbolic selection; for floats that means FP queries)."""
  lo, hi = 0, len(table)
  if not (0 <= idx < hi):
    raise IndexError(idx)
  while hi - lo > 1:                 # bisection: log2(n) solver decisions per path instead of n
    mid = (lo + hi) // 2
    if idx < mid:
      hi = mid
    else:
      lo = mid
  return table[lo]


class H(object):
  """One engine-X obligation: a PEP316 harness function analysed by CrossHair."""
  kind = 'X'

  def __init__(self, name, quick=None, thorough=None, covers=(), end=True, replay=None,
               encodes=(), assumptions=(), note='', twin_pre=None):
    self.name = name
    self.twin_pre = twin_pre
    # tier -> dict(timeout=float, extra_pre=[str], shards=[(label, pre)], per_path_timeout=float)
    self.tiers = {'quick': quick, 'thorough': thorough if thorough is not None else quick}
    self.covers = list(covers)
    self.end = end
    self.replay = replay
    self.encodes = list(encodes)
    self.assumptions = list(assumptions)
    self.note = note


class S(object):
  """One engine-S obligation group: a function building SMT queries from carbon's source.

  func(tier) -> list of dict(name=..., verdict='proved'|'refuted'|'unknown'|'error',
                             detail=str, model=dict|None, solver_time_s=float, witness=any)
  replay(model) -> bool  (True iff the violation reproduces on the real code)
  """
  kind = 'S'

  def __init__(self, name, func, replay=None, encodes=(), assumptions=(), note=''):
    self.name = name
    self.func = func
    self.replay = replay
    self.encodes = list(encodes)
    self.assumptions = list(assumptions)
    self.note = note


def scratch_dir(prefix):
  """Scratch directory for generated rule/schema/list files: under the run's work directory (removed
  by the runner even when a harness process is killed), else a temp dir removed at exit."""
  import atexit
  import shutil
  import tempfile
  base = os.environ.get('VP_TMP')
  if base:
    os.makedirs(base, exist_ok=True)
  d = tempfile.mkdtemp(prefix=prefix, dir=base or None)
  atexit.register(lambda: shutil.rmtree(d, ignore_errors=True))
  return d


_booted = False


def boot_carbon():
  """Make carbon importable the way the daemons see it, without carbon.service
  (txAMQP cannot be imported on py3): CONF_DIR fixture, state.events/instrumentation."""
  global _booted
  if _booted:
    return
  lib = os.path.join(REPO, 'lib')
  if lib not in sys.path:
    sys.path.insert(0, lib)
  from carbon.conf import settings
  # VP_CONF_DIR: a harness that rewrites the live config files sets up a private copy before anything boots
  settings['CONF_DIR'] = os.environ.get('VP_CONF_DIR') or os.path.join(FIXTURES, 'conf')
  from carbon import state, events, instrumentation
  state.events = events
  state.instrumentation = instrumentation
  _booted = True
