"""Concrete replay of a solver counterexample, outside CrossHair.

usage: python -m vp_lib.replay <replay.json>
The JSON names the harness module, the function to call (the harness' `replay` function when
it has one — it drives the real, unshadowed carbon code — otherwise the harness body itself,
executed concretely) and the `repr`-ed arguments.  Prints REPRODUCED / NOT_REPRODUCED.
"""
import importlib.util
import json
import os
import sys
import traceback

NS = {'nan': float('nan'), 'inf': float('inf'), 'float': float}


def load_module(path, name=None):
  name = name or ('vp_replay_' + os.path.basename(path)[:-3])
  spec = importlib.util.spec_from_file_location(name, path)
  mod = importlib.util.module_from_spec(spec)
  sys.modules[name] = mod
  spec.loader.exec_module(mod)
  return mod


def run(info):
  mod = load_module(info['module'])
  if info.get('engine') == 'S':
    spec = [h for h in mod.HARNESSES if h.name == info['harness']][0]
    ok = bool(spec.replay(info['model']))
    return ok, 'engine-S replay returned %r' % ok
  fn = getattr(mod, info['function'])
  args = {}
  for k, v in info['args'].items():
    args[k] = eval(v, dict(NS, **vars(mod)))
  import vp_lib.api as api
  api._TARGET = None
  try:
    r = fn(**args)
  except Exception as e:
    return True, 'raised %s: %s\n%s' % (type(e).__name__, e, traceback.format_exc()[-1200:])
  if r:
    return False, 'returned %r' % (r,)
  return True, 'returned %r' % (r,)


def main(argv):
  with open(argv[0]) as fh:
    info = json.load(fh)
  ok, detail = run(info)
  print(('REPRODUCED ' if ok else 'NOT_REPRODUCED ') + detail)
  return 0 if ok else 2


if __name__ == '__main__':
  sys.exit(main(sys.argv[1:]))
