"""Engine S: a small symbolic interpreter  Python AST -> z3 terms  for carbon's numeric kernels.

The CURRENT source of the named functions is parsed with `ast` and evaluated over z3 terms with
guarded assignments (if-then-else state merging, no path forking).  Python `int` -> z3 Int,
`float` -> z3 Real (IEEE rounding is outside the claims and said so).  Supported: assignments,
augmented assignments, attribute state on `self`, names, numeric constants, + - * / // %, unary -,
comparisons (incl. chains), and/or/not, if/elif/else, return, expression statements, calls to
min/max/float/int/abs, calls to other translated methods of the same object (inlined), and the
environment calls time() / sleep(d) through a clock model.  Anything else raises Unsupported,
which the caller reports as *inconclusive* -- never as a pass.
"""
import ast
import inspect
import textwrap

import z3


class Unsupported(Exception):
  pass


def _is_z3(x):
  return isinstance(x, z3.ExprRef)


def to_real(x):
  if _is_z3(x):
    return z3.ToReal(x) if x.sort() == z3.IntSort() else x
  if isinstance(x, bool):
    raise Unsupported('bool used as number')
  return z3.RealVal(repr(x)) if isinstance(x, float) else z3.RealVal(x)


def _num(x):
  """Python number -> z3 value (ints stay Int)."""
  if _is_z3(x):
    return x
  if isinstance(x, bool):
    return z3.BoolVal(x)
  if isinstance(x, int):
    return z3.IntVal(x)
  if isinstance(x, float):
    if x != x or x in (float('inf'), float('-inf')):
      raise Unsupported('non-finite float constant')
    return z3.RealVal(repr(x))
  raise Unsupported('constant %r' % (x,))


def _coerce_pair(a, b):
  a, b = _num(a), _num(b)
  if a.sort() != b.sort():
    a, b = to_real(a), to_real(b)
  return a, b


def as_bool(x):
  if _is_z3(x):
    if x.sort() == z3.BoolSort():
      return x
    return x != (z3.IntVal(0) if x.sort() == z3.IntSort() else z3.RealVal(0))
  return z3.BoolVal(bool(x))


def ite(c, a, b):
  if isinstance(c, bool):
    return a if c else b
  if a is b:
    return a
  if a is None or b is None:
    if a is None and b is None:
      return None
    raise Unsupported('merging None with a value')
  if isinstance(a, bool) or isinstance(b, bool) or (_is_z3(a) and a.sort() == z3.BoolSort()) \
     or (_is_z3(b) and b.sort() == z3.BoolSort()):
    return z3.If(c, as_bool(a), as_bool(b))
  a, b = _coerce_pair(a, b)
  return z3.If(c, a, b)


class Clock(object):
  """time() returns a fresh reading >= the previous one; sleep(d) advances it by >= max(d, 0)
  (exactly max(d,0) when exact_sleep).  All readings / sleeps are recorded."""

  def __init__(self, start, prefix='t', exact_sleep=False):
    self.now = start
    self.prefix = prefix
    self.n = 0
    self.constraints = []
    self.sleeps = []          # (guard, requested duration)
    self.readings = []
    self.exact_sleep = exact_sleep

  def time(self, guard):
    self.n += 1
    t = z3.Real('%s%d' % (self.prefix, self.n))
    self.constraints.append(t >= self.now)
    self.now = ite(guard, t, self.now)
    self.readings.append((guard, t))
    return t

  def sleep(self, guard, d):
    d = to_real(d)
    self.n += 1
    t = z3.Real('%s%d_wake' % (self.prefix, self.n))
    dur = z3.If(d > 0, d, z3.RealVal(0))
    self.constraints.append(t == self.now + dur if self.exact_sleep else t >= self.now + dur)
    self.sleeps.append((guard, d))
    self.now = ite(guard, t, self.now)


class Obj(object):
  """Symbolic object: attribute name -> z3 term."""

  def __init__(self, cls, attrs=None):
    self.cls = cls
    self.attrs = dict(attrs or {})


def method_ast(cls, name):
  fn = getattr(cls, name)
  fn = getattr(fn, '__func__', fn)
  src = textwrap.dedent(inspect.getsource(fn))
  node = ast.parse(src).body[0]
  if not isinstance(node, ast.FunctionDef):
    raise Unsupported('not a function: %s' % name)
  return node


class Interp(object):
  def __init__(self, clock, env_calls=None):
    self.clock = clock
    self.env_calls = env_calls or {}
    self.depth = 0

  # ---- calls ----
  def call_method(self, obj, name, args, guard=True, kwargs=None):
    fdef = method_ast(obj.cls, name)
    params = [a.arg for a in fdef.args.args]
    defaults = fdef.args.defaults
    env = {'self': obj}
    pos = params[1:]
    kwargs = dict(kwargs or {})
    for i, pname in enumerate(pos):
      if i < len(args):
        env[pname] = args[i]
      elif pname in kwargs:
        env[pname] = kwargs.pop(pname)
      else:
        di = i - (len(pos) - len(defaults))
        if di < 0:
          raise Unsupported('missing argument %s' % pname)
        env[pname] = ast.literal_eval(defaults[di])
    if kwargs:
      raise Unsupported('unexpected keyword %s' % list(kwargs))
    frame = {'env': env, 'active': as_bool(guard), 'returned': z3.BoolVal(False), 'ret': None}
    self.depth += 1
    if self.depth > 6:
      raise Unsupported('call depth')
    try:
      self.exec_block(fdef.body, frame)
    finally:
      self.depth -= 1
    return frame['ret']

  # ---- statements ----
  def exec_block(self, stmts, fr):
    for st in stmts:
      self.exec_stmt(st, fr)

  def _assign(self, target, value, fr):
    g = fr['active']
    if isinstance(target, ast.Name):
      old = fr['env'].get(target.id)
      fr['env'][target.id] = value if old is None else ite(g, value, old)
    elif isinstance(target, ast.Attribute) and isinstance(target.value, ast.Name) and target.value.id == 'self':
      obj = fr['env']['self']
      old = obj.attrs.get(target.attr)
      obj.attrs[target.attr] = value if old is None else ite(g, value, old)
    else:
      raise Unsupported('assignment target %s' % ast.dump(target))

  def exec_stmt(self, st, fr):
    if isinstance(st, ast.Expr):
      if isinstance(st.value, ast.Constant):
        return                                   # docstring
      self.eval(st.value, fr)
    elif isinstance(st, ast.Assign):
      if len(st.targets) != 1:
        raise Unsupported('multiple targets')
      self._assign(st.targets[0], self.eval(st.value, fr), fr)
    elif isinstance(st, ast.AugAssign):
      cur = self.eval(ast.copy_location(self._load(st.target), st), fr)
      val = self.binop(st.op, cur, self.eval(st.value, fr))
      self._assign(st.target, val, fr)
    elif isinstance(st, ast.Return):
      val = self.eval(st.value, fr) if st.value is not None else None
      g = fr['active']
      fr['ret'] = val if fr['ret'] is None else ite(g, val, fr['ret'])
      fr['returned'] = z3.Or(fr['returned'], g)
      fr['active'] = z3.BoolVal(False)
    elif isinstance(st, ast.If):
      c = as_bool(self.eval(st.test, fr))
      outer = fr['active']
      ret_before = fr['returned']
      fr['active'] = z3.And(outer, c)
      self.exec_block(st.body, fr)
      fr['active'] = z3.And(outer, z3.Not(c))
      self.exec_block(st.orelse, fr)
      newly = z3.And(fr['returned'], z3.Not(ret_before))
      fr['active'] = z3.simplify(z3.And(outer, z3.Not(newly)))
    elif isinstance(st, ast.Pass):
      return
    else:
      raise Unsupported('statement %s' % type(st).__name__)

  @staticmethod
  def _load(target):
    t = ast.parse(ast.unparse(target), mode='eval').body
    return t

  # ---- expressions ----
  def binop(self, op, a, b):
    if isinstance(op, (ast.RShift, ast.LShift, ast.BitXor, ast.BitAnd, ast.BitOr)):
      # bit operations: operands are z3 bit-vectors (machine words) or int constants
      bv = a if isinstance(a, z3.BitVecRef) else b if isinstance(b, z3.BitVecRef) else None
      if bv is None:
        raise Unsupported('bit operation on unbounded ints')
      n = bv.size()
      a = a if isinstance(a, z3.BitVecRef) else z3.BitVecVal(a, n)
      b = b if isinstance(b, z3.BitVecRef) else z3.BitVecVal(b, n)
      return {ast.RShift: lambda: z3.LShR(a, b), ast.LShift: lambda: a << b, ast.BitXor: lambda: a ^ b,
              ast.BitAnd: lambda: a & b, ast.BitOr: lambda: a | b}[type(op)]()
    if isinstance(op, ast.Add):
      a, b = _coerce_pair(a, b)
      return a + b
    if isinstance(op, ast.Sub):
      a, b = _coerce_pair(a, b)
      return a - b
    if isinstance(op, ast.Mult):
      a, b = _coerce_pair(a, b)
      return a * b
    if isinstance(op, ast.Div):
      return to_real(a) / to_real(b)
    if isinstance(op, ast.FloorDiv):
      a, b = _num(a), _num(b)
      if a.sort() == z3.IntSort() and b.sort() == z3.IntSort():
        return a / b            # z3 Int division = floor for positive divisors (callers assume b > 0)
      raise Unsupported('// on reals')
    if isinstance(op, ast.Mod):
      a, b = _num(a), _num(b)
      if a.sort() == z3.IntSort() and b.sort() == z3.IntSort():
        return a % b
      raise Unsupported('% on reals')
    raise Unsupported('operator %s' % type(op).__name__)

  def compare(self, op, a, b):
    if isinstance(op, (ast.Is, ast.IsNot)):
      raise Unsupported('is')
    a, b = _coerce_pair(a, b)
    return {ast.Lt: lambda: a < b, ast.LtE: lambda: a <= b, ast.Gt: lambda: a > b, ast.GtE: lambda: a >= b,
            ast.Eq: lambda: a == b, ast.NotEq: lambda: a != b}[type(op)]()

  def eval(self, node, fr):
    if isinstance(node, ast.Constant):
      if isinstance(node.value, (int, float, bool)):
        return node.value
      if node.value is None:
        return None
      raise Unsupported('constant %r' % (node.value,))
    if isinstance(node, ast.Name):
      if node.id in fr['env']:
        return fr['env'][node.id]
      if node.id in ('True', 'False'):
        return node.id == 'True'
      raise Unsupported('free name %s' % node.id)
    if isinstance(node, ast.Attribute):
      if isinstance(node.value, ast.Name) and node.value.id == 'self':
        obj = fr['env']['self']
        if node.attr not in obj.attrs:
          const = getattr(obj.cls, node.attr, None)            # class-level numeric constant
          if isinstance(const, bool):
            return const
          if isinstance(const, int):
            return z3.IntVal(const)
          if isinstance(const, float) and const == const and abs(const) != float('inf'):
            return z3.RealVal(repr(const))
          raise Unsupported('unknown attribute self.%s' % node.attr)
        return obj.attrs[node.attr]
      raise Unsupported('attribute %s' % ast.unparse(node))
    if isinstance(node, ast.BinOp):
      return self.binop(node.op, self.eval(node.left, fr), self.eval(node.right, fr))
    if isinstance(node, ast.UnaryOp):
      v = self.eval(node.operand, fr)
      if isinstance(node.op, ast.Not):
        return z3.Not(as_bool(v))
      if isinstance(node.op, ast.USub):
        return -_num(v)
      raise Unsupported('unary')
    if isinstance(node, ast.BoolOp):
      vals = [as_bool(self.eval(v, fr)) for v in node.values]
      return z3.And(*vals) if isinstance(node.op, ast.And) else z3.Or(*vals)
    if isinstance(node, ast.Compare):
      left = self.eval(node.left, fr)
      out = []
      for op, right in zip(node.ops, node.comparators):
        r = self.eval(right, fr)
        out.append(self.compare(op, left, r))
        left = r
      return out[0] if len(out) == 1 else z3.And(*out)
    if isinstance(node, ast.Tuple):
      return tuple(self.eval(e, fr) for e in node.elts)
    if isinstance(node, ast.Subscript):
      base = self.eval(node.value, fr)
      idx = node.slice
      if isinstance(base, (tuple, list)) and isinstance(idx, ast.Constant) and isinstance(idx.value, int):
        return base[idx.value]
      raise Unsupported('subscript %s' % ast.unparse(node))
    if isinstance(node, ast.IfExp):
      return ite(as_bool(self.eval(node.test, fr)), self.eval(node.body, fr), self.eval(node.orelse, fr))
    if isinstance(node, ast.Call):
      return self.call(node, fr)
    raise Unsupported('expression %s' % type(node).__name__)

  def call(self, node, fr):
    f = node.func
    args = [self.eval(a, fr) for a in node.args]
    kwargs = dict((k.arg, self.eval(k.value, fr)) for k in node.keywords)
    if isinstance(f, ast.Name):
      if f.id == 'time' and not args:
        return self.clock.time(fr['active'])
      if f.id == 'sleep' and len(args) == 1:
        self.clock.sleep(fr['active'], args[0])
        return None
      if f.id == 'float' and len(args) == 1:
        return to_real(args[0])
      if f.id == 'int' and len(args) == 1:
        a = _num(args[0])
        if a.sort() == z3.IntSort():
          return a
        raise Unsupported('int() of a real')
      if f.id in ('min', 'max') and len(args) == 2:
        a, b = _coerce_pair(args[0], args[1])
        return z3.If(a <= b, a, b) if f.id == 'min' else z3.If(a >= b, a, b)
      if f.id == 'abs' and len(args) == 1:
        a = _num(args[0])
        return z3.If(a >= 0, a, -a)
      if f.id in self.env_calls:
        return self.env_calls[f.id](fr['active'], *args)
      raise Unsupported('call to %s' % f.id)
    if isinstance(f, ast.Attribute) and isinstance(f.value, ast.Name) and f.value.id == 'self':
      return self.call_method(fr['env']['self'], f.attr, args, guard=fr['active'], kwargs=kwargs)
    raise Unsupported('call %s' % ast.unparse(f))


def check(solver_factory, assumptions, goal, timeout_ms=60000):
  """Decide `assumptions => goal` : returns ('proved'|'refuted'|'unknown', model|None, seconds)."""
  import time as _t
  s = solver_factory()
  s.set('timeout', timeout_ms)
  for a in assumptions:
    s.add(a)
  s.add(z3.Not(goal))
  t0 = _t.perf_counter()
  r = s.check()
  dt = _t.perf_counter() - t0
  if str(r) == 'unsat':
    return 'proved', None, dt
  if str(r) == 'sat':
    m = s.model()
    return 'refuted', dict((str(d), str(m[d])) for d in m.decls()), dt
  return 'unknown', None, dt


def satisfiable(assumptions, timeout_ms=30000):
  s = z3.Solver()
  s.set('timeout', timeout_ms)
  for a in assumptions:
    s.add(a)
  r = s.check()
  if str(r) == 'sat':
    m = s.model()
    return True, dict((str(d), str(m[d])) for d in m.decls())
  return (False if str(r) == 'unsat' else None), None
