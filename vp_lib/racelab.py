"""Two-thread scenarios on the cache: the storing (receiver) thread vs the draining (writer) thread.

Symbolic run: statement-level coroutines of carbon.cache (sched.coroutinise) with a cooperative lock;
the schedule is (p1, n[, p2]): the writer runs p1 statements, the receiver n statements (or until it
blocks / finishes), [the writer p2 more,] then everything runs to completion.
Replay: the same schedule (as the recorded statement trace) on real OS threads running the REAL
carbon.cache with its real threading.Lock (threadreplay).
"""
from vp_lib.api import boot_carbon
from vp_lib import sched, threadreplay
from vp_lib import cachelab as K
from vp_lib.cachelab import sset

boot_carbon()
import carbon.cache as real_cache  # noqa: E402
from carbon import state, events  # noqa: E402

TARGETS = ['store', 'pop', 'drain_metric', '_check_available_space', 'choose_item']
RECEIVERS = ['self', 'self.strategy']
CO = sched.coroutinise(real_cache, TARGETS, RECEIVERS)
if CO.__vp_missing__:
  raise LookupError('cannot instrument carbon.cache: %s not found' % CO.__vp_missing__)


class Outcome(object):
  def __init__(self):
    self.drains = []          # (metric, batch) in order
    self.errors = []          # (thread, exception)
    self.trace = []
    self.cache = None
    self.pre = None
    self.size_bad = None      # first lock-free point at which size != datapoints held
    self.bound_bad = None     # first lock-free point at which size exceeded the hard limit
    self.overflow = 0
    self.paused_at_end = None
    self.replay_problems = []


def _limits(maxsize, flow):
  if maxsize is None:
    K.apply_limits(float('inf'), False)
  else:
    K.apply_limits(maxsize, flow)


def _prefill_values(pv):
  return [pv, pv + 1, pv + 2, pv + 3]


def symbolic_run(strat, bits, pv, stores, ndrains, plan, maxsize=None, flow=False, wire=False):
  """stores: list of (metric, ts, value) performed in order by the receiver thread."""
  out = Outcome()
  CO.time = K.FakeTime(1000)
  CO.choice = lambda seq: seq[0]
  sset('MIN_TIMESTAMP_LAG', 0)
  sset('LOG_CACHE_QUEUE_SORTS', False)
  _limits(None, False)
  state.cacheTooFull = False
  state.metricReceiversPaused = False
  cache = CO._MetricCache(K.strategy_class(CO, strat))
  cache.lock = sched.CoopLock()
  vals = _prefill_values(pv)
  k = 0
  for i in (0, 1):
    for j in (0, 1):
      if bits[k]:
        sched.run_to_end(cache.store(K.METRICS[i], (K.STAMPS[j], vals[k])))
      k += 1
  out.pre = K.contents(cache)
  _limits(maxsize, flow)
  hard = K.settings['CACHE_SIZE_HARD_MAX']
  ev = K.Events()

  def writer():
    for _ in range(ndrains):
      m, d = yield from cache.drain_metric()
      out.drains.append((m, list(d)))
      if m is None:
        break

  def receiver():
    for (m, ts, v) in stores:
      yield from cache.store(m, (ts, v))

  def on_step(t):
    if not cache.lock.held:
      if out.size_bad is None and cache.size != K.held(cache):
        out.size_bad = (t.name, cache.size, K.held(cache))
      if maxsize is not None and out.bound_bad is None and cache.size > hard:
        out.bound_bad = (t.name, cache.size)
  threads = {'W': sched.Thread('W', writer()), 'R': sched.Thread('R', receiver())}
  wiring = None
  if wire:
    from vp_lib.clientlab import Wiring
    wiring = Wiring()
    wiring.__enter__()
  try:
    with ev:
      out.trace = sched.run_plan(threads, plan, on_step=on_step)
    out.paused_at_end = state.metricReceiversPaused
  finally:
    if wiring is not None:
      wiring.__exit__()
  for t in threads.values():
    if t.error is not None:
      out.errors.append((t.name, t.error))
  out.cache = cache
  out.overflow = ev.overflow
  return out


def real_run(strat, bits, pv, stores, ndrains, trace, maxsize=None, flow=False, wire=False):
  """Same scenario on the real module with real threads, following `trace`."""
  out = Outcome()
  real_cache.time = K.FakeTime(1000)
  real_cache.choice = lambda seq: seq[0]
  sset('MIN_TIMESTAMP_LAG', 0)
  sset('LOG_CACHE_QUEUE_SORTS', False)
  _limits(None, False)
  state.cacheTooFull = False
  state.metricReceiversPaused = False
  cache = real_cache._MetricCache(K.strategy_class(real_cache, strat))
  vals = _prefill_values(pv)
  k = 0
  for i in (0, 1):
    for j in (0, 1):
      if bits[k]:
        cache.store(K.METRICS[i], (K.STAMPS[j], vals[k]))
      k += 1
  out.pre = K.contents(cache)
  _limits(maxsize, flow)
  ev = K.Events()

  def writer():
    for _ in range(ndrains):
      m, d = cache.drain_metric()
      out.drains.append((m, list(d)))
      if m is None:
        break

  def receiver():
    for (m, ts, v) in stores:
      cache.store(m, (ts, v))
  wiring = None
  if wire:
    from vp_lib.clientlab import Wiring
    wiring = Wiring()
    wiring.__enter__()
  try:
    with ev:
      hard = K.settings['CACHE_SIZE_HARD_MAX']

      def probe(name):
        if not cache.lock.locked():
          if out.size_bad is None and cache.size != K.held(cache):
            out.size_bad = (name, cache.size, K.held(cache))
          if maxsize is not None and out.bound_bad is None and cache.size > hard:
            out.bound_bad = (name, cache.size)
      results, problems = threadreplay.run_threads(trace, {'W': writer, 'R': receiver}, 'carbon/cache.py', TARGETS, probe=probe)
    out.paused_at_end = state.metricReceiversPaused
  finally:
    if wiring is not None:
      wiring.__exit__()
    import time as _t
    real_cache.time = _t
  for name, (kind, val) in results.items():
    if kind == 'error':
      out.errors.append((name, val))
  out.replay_problems = problems
  out.cache = cache
  out.overflow = ev.overflow
  out.trace = trace
  return out


def conservation_problem(out, stores, ghost=0):
  """Every accepted datapoint is handed out by exactly one drain or still cached; for a timestamp
  stored twice the surviving value is the later store; batches sorted without repeated timestamps;
  size exact at the end.  Returns None or a description."""
  cache = out.cache
  for (m, batch) in out.drains:
    for i in range(1, len(batch)):
      if not batch[i - 1][0] < batch[i][0]:
        return 'drained batch not sorted / repeats a timestamp: %r' % (batch,)
    if m is not None and not batch:
      return 'drain returned %r without datapoints' % (m,)
  if cache.size != K.held(cache) + ghost:
    return 'size %r but %r datapoints held at the end' % (cache.size, K.held(cache))
  # all versions of each (metric, timestamp): the pre-existing value then the receiver's stores in order
  versions = {}
  for m, d in out.pre.items():
    for ts, v in d.items():
      versions.setdefault((m, ts), []).append(v)
  for (m, ts, v) in stores:
    versions.setdefault((m, ts), []).append(v)
  handed = {}
  for (m, batch) in out.drains:
    for (ts, v) in batch:
      handed.setdefault((m, ts), []).append(v)
  left = K.contents(cache)
  for key, vs in versions.items():
    m, ts = key
    in_cache = m in left and ts in left[m]
    got = handed.get(key, [])
    if not got and not in_cache:
      return 'datapoint %s@%s lost (neither drained nor cached)' % key
    if len(got) > 1 and len(vs) < len(got):
      return 'datapoint %s@%s handed out %d times' % (m, ts, len(got))
    if in_cache and left[m][ts] != vs[-1]:
      return 'cached value of %s@%s is not the most recently stored one' % key
    if not in_cache and got[-1] != vs[-1]:
      return 'the most recent store of %s@%s was neither handed out nor kept (last write lost)' % key
    for g in got:
      if g not in vs:
        return 'drained a value never stored for %s@%s' % key
  for key in handed:
    if key not in versions:
      return 'drained a datapoint never stored: %r' % (key,)
  return None
