"""Shared machinery for the relay-client properties (C07, C09 relay side, C15)."""
from twisted.internet.task import Clock
from twisted.python.failure import Failure
from twisted.internet.error import ConnectionLost

from vp_lib.api import boot_carbon
from vp_lib.shadow import shadow_module
from vp_lib.carbonenv import RecTransport
from vp_lib.cachelab import sset

boot_carbon()
import carbon.client as real_client  # noqa: E402
from carbon import state, events, instrumentation  # noqa: E402

SHADOW = shadow_module(real_client)        # log statements (and their formatting) removed
DEST = ('10.0.0.1', 2004, 'a')


class StubRouter(object):
  def __init__(self, dests=()):
    self.dests = set(dests)

  def addDestination(self, d):
    self.dests.add(d)

  def removeDestination(self, d):
    self.dests.discard(d)

  def hasDestination(self, d):
    return d in self.dests

  def countDestinations(self):
    return len(self.dests)

  def getDestinations(self, key):
    return list(self.dests)


class Connector(object):
  host, port = '10.0.0.1', 2004
  state = 'disconnected'

  def __init__(self):
    self.connects = 0
    self.stopped = 0

  def connect(self):
    self.connects += 1

  def stopConnecting(self):
    self.stopped += 1

  def disconnect(self):
    pass


class StopTransport(RecTransport):
  """Remembers how much had been written when the connection was closed."""

  def __init__(self):
    RecTransport.__init__(self)
    self.written_at_close = None

  def loseConnection(self):
    if self.written_at_close is None:
      self.written_at_close = len(self.written)
    self.disconnecting = True


def configure(mod, low, mx, hard, batch, dynamic=False, max_retries=5):
  sset('MAX_QUEUE_SIZE', mx)
  sset('MAX_DATAPOINTS_PER_MESSAGE', batch)
  sset('DYNAMIC_ROUTER', dynamic)
  sset('DYNAMIC_ROUTER_MAX_RETRIES', max_retries)
  sset('USE_RATIO_RESET', False)
  sset('DESTINATION_POOL_REPLICAS', False)
  sset('TIME_TO_DEFER_SENDING', 0.0001)
  sset('TCP_KEEPALIVE', False)
  mod.SEND_QUEUE_LOW_WATERMARK = low
  mod.SEND_QUEUE_HARD_MAX = hard
  mod.reactor = Clock()
  state.metricReceiversPaused = False
  state.cacheTooFull = False
  return mod.reactor


def make_factory(mod, kind='line', router=None, dest=DEST):
  cls = mod.CarbonLineClientFactory if kind == 'line' else mod.CarbonPickleClientFactory
  router = router if router is not None else StubRouter([dest])
  f = cls(dest, router)
  f.clock = mod.reactor          # ReconnectingClientFactory.retry uses self.clock when set
  f.jitter = 0
  f.connector = Connector()
  f.started = True
  return f


def connect(factory, record=True, transport=None):
  """buildProtocol + makeConnection on a recording transport; optionally replace the encoder by a
  recorder so that datapoints stay symbolic (the encoders are C15's subject)."""
  proto = factory.buildProtocol(None)
  t = transport or StopTransport()
  batches = []
  if record:
    proto._sendDatapointsNow = lambda dps: batches.append(list(dps))
  proto.makeConnection(t)
  return proto, t, batches


def lose(factory, proto, failed=False):
  reason = Failure(ConnectionLost('gone'))
  if proto is not None:
    proto.connectionLost(reason)
  if failed:
    factory.clientConnectionFailed(factory.connector, reason)
  else:
    factory.clientConnectionLost(factory.connector, reason)


def fill(factory, n, start=0):
  items = []
  for i in range(n):
    item = ('m', (start + i, start + i))
    factory.queue.append(item)
    items.append(item)
  return items


def stat(name):
  return instrumentation.stats.get(name, 0)


def drain_clock(clock, limit=64):
  """Advance the virtual reactor until no delayed call is pending (quiescence)."""
  n = 0
  while clock.getDelayedCalls() and n < limit:
    clock.advance(1)
    n += 1
  return not clock.getDelayedCalls()


class Wiring(object):
  """cacheFull -> pauseReceivingMetrics, cacheSpaceAvailable -> resumeReceivingMetrics, as
  service.py wires them under USE_FLOW_CONTROL (checked against the source by C09_wiring)."""

  def __enter__(self):
    events.cacheFull.addHandler(events.pauseReceivingMetrics)
    events.cacheSpaceAvailable.addHandler(events.resumeReceivingMetrics)
    state.metricReceiversPaused = False
    state.cacheTooFull = False
    return self

  def __exit__(self, *a):
    events.cacheFull.removeHandler(events.pauseReceivingMetrics)
    events.cacheSpaceAvailable.removeHandler(events.resumeReceivingMetrics)
    state.metricReceiversPaused = False
    state.cacheTooFull = False
    return False
