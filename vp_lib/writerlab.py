"""Shared machinery for the writer properties (C03, C04, C19 create loop, C20 call sites)."""
from vp_lib.api import boot_carbon
from vp_lib import cachelab as K
from vp_lib.cachelab import sset

boot_carbon()
import carbon.writer as writer  # noqa: E402   (the REAL module: globals are patched per run)
from carbon import state, instrumentation  # noqa: E402
from carbon.storage import DefaultSchema, Archive  # noqa: E402

_ORIG = dict((k, getattr(writer, k)) for k in ('reactor', 'time', 'MetricCache', 'log', 'CREATE_BUCKET', 'UPDATE_BUCKET',
                                                'SCHEMAS', 'AGGREGATION_SCHEMAS'))


class BackendFault(Exception):
  pass


class CountingLog(object):
  def __init__(self):
    self.errs = 0

  def err(self, *a, **k):
    self.errs += 1

  def __getattr__(self, name):
    return lambda *a, **k: None


class RecordingDB(object):
  """In-memory storage backend.  Call k (0-based, counting exists/create/write together) raises
  BackendFault iff bit k of `faults` is set (only the first `nfault_bits` calls can fail)."""
  plugin_name = 'verif-recording'
  aggregationMethods = ['average', 'sum', 'last', 'max', 'min']

  def __init__(self, preexisting=(), faults=0, nfault_bits=0, hook=None):
    self.files = set(preexisting)
    self.faults, self.nbits = faults, nfault_bits
    self.calls = []          # (kind, metric, payload, ok, file_existed)
    self.n = 0
    self.hook = hook

  def _maybe_fail(self, kind, metric, payload):
    k = self.n
    self.n += 1
    if self.hook is not None:
      self.hook(kind, metric)
    failed = k < self.nbits and ((self.faults >> k) & 1) == 1
    self.calls.append((kind, metric, payload, not failed, metric in self.files))
    if failed:
      raise BackendFault('backend unavailable')     # the same text every time, as a dead disk or socket gives

  def exists(self, metric):
    self._maybe_fail('exists', metric, None)
    return metric in self.files

  def create(self, metric, retentions, xff, method):
    self._maybe_fail('create', metric, (retentions, xff, method))
    self.files.add(metric)

  def write(self, metric, datapoints):
    self._maybe_fail('write', metric, list(datapoints))

  def tag(self, *metrics):
    pass


class BucketStub(object):
  """CREATE_BUCKET / UPDATE_BUCKET stand-in granting according to scripted bits (the arithmetic of
  the real TokenBucket is C20's lemma set; here only the writer's call discipline matters)."""

  def __init__(self, peek_bits, drain_bits):
    self.peek_bits, self.drain_bits = peek_bits, drain_bits
    self.np = self.nd = 0
    self.log = []
    self.capacity_changes = []

  def peek(self, cost):
    ok = ((self.peek_bits >> self.np) & 1) == 1 if self.np < 6 else True
    self.np += 1
    self.log.append(('peek', cost, ok))
    return ok

  def drain(self, cost, blocking=False):
    ok = True if blocking else (((self.drain_bits >> self.nd) & 1) == 1 if self.nd < 6 else True)
    self.nd += 1
    self.log.append(('drain', cost, blocking, ok))
    return ok

  def setCapacityAndFillRate(self, c, r):
    self.capacity_changes.append((c, r))


class FakeTimeModule(object):
  def __init__(self, on_sleep=None):
    self.now = 1000
    self.sleeps = []
    self.on_sleep = on_sleep

  def time(self):
    return self.now

  def sleep(self, d):
    self.sleeps.append(d)
    if self.on_sleep is not None:
      self.on_sleep(d)
    self.now += 1


class StopReactor(object):
  """reactor stand-in: `running` is True until `stop()`; every read is an event for the harness."""

  def __init__(self, on_read=None):
    self._running = True
    self.reads = 0
    self.on_read = on_read

  @property
  def running(self):
    self.reads += 1
    if self.on_read is not None:
      self.on_read()
    return self._running

  def stop(self):
    self._running = False


DEFAULT_SCHEMAS = [DefaultSchema('default', [Archive(60, 10)])]
DEFAULT_AGG = [DefaultSchema('default', (None, None))]


def install(cache, db, create_bucket=None, update_bucket=None, reactor=None, time_mod=None, schemas=None, agg=None, mod=None):
  writer = mod if mod is not None else globals()['writer']
  writer.MetricCache = lambda: cache
  writer.log = CountingLog()
  writer.CREATE_BUCKET, writer.UPDATE_BUCKET = create_bucket, update_bucket
  writer.SCHEMAS = schemas if schemas is not None else DEFAULT_SCHEMAS
  writer.AGGREGATION_SCHEMAS = agg if agg is not None else DEFAULT_AGG
  writer.time = time_mod or FakeTimeModule()
  if reactor is not None:
    writer.reactor = reactor
  state.database = db
  for k in ('LOG_CREATES', 'LOG_UPDATES', 'ENABLE_TAGS'):
    sset(k, False)
  instrumentation.stats.clear()
  return writer.log


def restore():
  for k, v in _ORIG.items():
    setattr(writer, k, v)
  state.database = None


def stats(name):
  return instrumentation.stats.get(name, 0)
