"""Stubs shared by harnesses (each one is part of the claim; see DESIGN.md section 1.4)."""


class LinearMap(object):
  """dict stand-in comparing keys with == (a dict lookup hashes, i.e. realises, a symbolic str)."""

  def __init__(self, items):
    self._items = list(items)

  def __contains__(self, key):
    for k, _ in self._items:
      if k == key:
        return True
    return False

  def __getitem__(self, key):
    for k, v in self._items:
      if k == key:
        return v
    raise KeyError('key')

  def get(self, key, default=None):
    for k, v in self._items:
      if k == key:
        return v
    return default

  def keys(self):
    return [k for k, _ in self._items]

  def values(self):
    return [v for _, v in self._items]

  def items(self):
    return list(self._items)

  def __iter__(self):
    return iter(self.keys())

  def __len__(self):
    return len(self._items)


class LinearSet(object):
  def __init__(self, items):
    self._items = list(items)

  def __contains__(self, key):
    for k in self._items:
      if k == key:
        return True
    return False

  def __iter__(self):
    return iter(list(self._items))

  def __len__(self):
    return len(self._items)
