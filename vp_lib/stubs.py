"""Stubs shared by harnesses (each one is part of the claim; see DESIGN.md section 1.4)."""


class LinearMap(object):
  """dict stand-in comparing keys with == (a dict lookup hashes, i.e. realises, a symbolic str)."""

  def __init__(self, items):
    self._items = list(items)

  def __contains__(self, key):
    for k, _ in self._items:
      if k == key:
        return True
    return False

  def __getitem__(self, key):
    for k, v in self._items:
      if k == key:
        return v
    raise KeyError('key')

  def get(self, key, default=None):
    for k, v in self._items:
      if k == key:
        return v
    return default

  def keys(self):
    return [k for k, _ in self._items]

  def values(self):
    return [v for _, v in self._items]

  def items(self):
    return list(self._items)

  def __iter__(self):
    return iter(self.keys())

  def __len__(self):
    return len(self._items)


class LinearSet(object):
  def __init__(self, items):
    self._items = list(items)

  def __contains__(self, key):
    for k in self._items:
      if k == key:
        return True
    return False

  def __iter__(self):
    return iter(list(self._items))

  def __len__(self):
    return len(self._items)


class Q(object):
  """Exact rational num/den with a CONCRETE positive denominator and a (possibly symbolic) int
  numerator.  Stands in for the floats carbon derives from integer settings (MAX * 1.05 ...):
  CrossHair's float model makes every comparison a slow FP query, whereas n/d compared by
  cross-multiplication with a concrete d is linear integer arithmetic.  Float constants are
  read as the nearby simple rational (1.05 -> 21/20): 'floats as reals', stated as an assumption."""
  __slots__ = ('num', 'den')

  def __init__(self, num, den=1):
    self.num, self.den = num, den

  @staticmethod
  def _const(x):
    from fractions import Fraction
    if isinstance(x, Q):
      return x.num, x.den
    if isinstance(x, float):
      fr = Fraction(x).limit_denominator(10 ** 6)
      return fr.numerator, fr.denominator
    return x, 1

  def __mul__(self, other):
    n, d = Q._const(other)
    return Q(self.num * n, self.den * d)

  __rmul__ = __mul__

  def _cmp_parts(self, other):
    n, d = Q._const(other)
    return self.num * d, n * self.den

  def __eq__(self, other):
    if isinstance(other, float) and other in (float('inf'), float('-inf')):
      return False
    a, b = self._cmp_parts(other)
    return a == b

  def __ne__(self, other):
    return not self.__eq__(other)

  def __lt__(self, other):
    if isinstance(other, float) and other == float('inf'):
      return True
    a, b = self._cmp_parts(other)
    return a < b

  def __le__(self, other):
    if isinstance(other, float) and other == float('inf'):
      return True
    a, b = self._cmp_parts(other)
    return a <= b

  def __gt__(self, other):
    if isinstance(other, float) and other == float('inf'):
      return False
    a, b = self._cmp_parts(other)
    return a > b

  def __ge__(self, other):
    if isinstance(other, float) and other == float('inf'):
      return False
    a, b = self._cmp_parts(other)
    return a >= b

  __hash__ = None

  def __repr__(self):
    return 'Q(%r/%r)' % (self.num, self.den)
