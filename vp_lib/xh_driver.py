"""Run CrossHair (engine X) on ONE generated harness function and print a JSON verdict.

usage: python -m vp_lib.xh_driver <module.py> <function> <per_condition_timeout> [per_path_timeout]

The verdict is CrossHair's own (symbolic execution of the harness, z3 deciding every
branch); this driver only adds measurement: number of iterations (paths attempted),
how many completed paths were confirmed / unknown / ignored (precondition failed),
z3 check() calls and the time spent in them, and the concrete counterexample arguments
(`repr`-ed) when the postcondition is refuted.
"""
import importlib.util
import json
import os
import sys
import time
import traceback


def _load(path, name='vp_generated_harness'):
  spec = importlib.util.spec_from_file_location(name, path)
  mod = importlib.util.module_from_spec(spec)
  sys.modules[name] = mod
  spec.loader.exec_module(mod)
  return mod


def main(argv):
  path, fname, timeout = argv[0], argv[1], float(argv[2])
  per_path = float(argv[3]) if len(argv) > 3 else None
  out = dict(harness=fname, status='ERROR', messages=[], iterations=0, confirmed_paths=0,
             unknown_paths=0, ignored_paths=0, refuted_paths=0, solver_checks=0,
             solver_time_s=0.0, counterexamples=[], wall_s=0.0, exhausted=False)
  t0 = time.time()
  try:
    import z3
    from crosshair import core, core_and_libs  # noqa: F401  (registers library models)
    from crosshair.options import AnalysisOptionSet, AnalysisKind
    from crosshair.statespace import StateSpace, VerificationStatus, MessageType
    from crosshair.tracers import NoTracing

    # --- measurement hooks -------------------------------------------------
    _orig_check = z3.Solver.check

    def _timed_check(self, *a, **k):
      t = time.perf_counter()
      try:
        return _orig_check(self, *a, **k)
      finally:
        out['solver_checks'] += 1
        out['solver_time_s'] += time.perf_counter() - t
    z3.Solver.check = _timed_check

    _orig_bubble = StateSpace.bubble_status

    def _bubble(self, analysis):
      out['iterations'] += 1
      st = analysis.verification_status
      if st is None:
        out['ignored_paths'] += 1
      elif st == VerificationStatus.CONFIRMED:
        out['confirmed_paths'] += 1
      elif st == VerificationStatus.UNKNOWN:
        out['unknown_paths'] += 1
      else:
        out['refuted_paths'] += 1
      top, exhausted = _orig_bubble(self, analysis)
      if exhausted:
        out['exhausted'] = True
      return top, exhausted
    StateSpace.bubble_status = _bubble

    _orig_mk = core.make_counterexample_message

    def _mk(conditions, args, return_val=None):
      msg = _orig_mk(conditions, args, return_val)
      try:
        with NoTracing():
          from crosshair.core import deep_realize
          real = deep_realize(args)
          out['counterexamples'].append({k: repr(v) for k, v in real.arguments.items()})
      except BaseException as e:  # measurement must never change the verdict
        out['counterexamples'].append({'__unrepresentable__': repr(e)})
      return msg
    core.make_counterexample_message = _mk

    mod = _load(path)
    fn = getattr(mod, fname)
    kw = dict(per_condition_timeout=timeout, report_all=True,
              analysis_kind=[AnalysisKind.PEP316], max_uninteresting_iterations=0)
    if per_path:
      kw['per_path_timeout'] = per_path
    options = AnalysisOptionSet(**kw)
    checkables = core.analyze_function(fn, options)
    if not checkables:
      out['messages'].append('no checkable conditions found')
    msgs = core.run_checkables(checkables)
    states = []
    for m in msgs:
      states.append(m.state)
      out['messages'].append(dict(state=m.state.name, message=m.message, line=m.line,
                                  traceback=(m.traceback or '')[-1500:]))
    if not msgs:
      out['status'] = 'ERROR'
    elif any(s == MessageType.PRE_UNSAT for s in states):
      out['status'] = 'PRE_UNSAT'
    elif any(s in (MessageType.POST_FAIL, MessageType.EXEC_ERR, MessageType.POST_ERR,
                   MessageType.SYNTAX_ERR, MessageType.IMPORT_ERR)
             for s in states):
      out['status'] = 'REFUTED'
    elif all(s == MessageType.CONFIRMED for s in states):
      out['status'] = 'CONFIRMED'
    else:
      out['status'] = 'UNKNOWN'
  except BaseException as e:
    out['status'] = 'ERROR'
    out['messages'].append(dict(state='DRIVER_ERROR', message=repr(e),
                                traceback=traceback.format_exc()[-3000:]))
  out['wall_s'] = round(time.time() - t0, 3)
  out['solver_time_s'] = round(out['solver_time_s'], 3)
  sys.stdout.write('\n@@VPJSON@@' + json.dumps(out) + '\n')
  sys.stdout.flush()
  try:
    import atexit
    atexit._run_exitfuncs()      # harness temp dirs are removed by atexit handlers
  except BaseException:
    pass
  os._exit(0)


if __name__ == '__main__':
  main(sys.argv[1:])
