"""Shadow copies of carbon functions/classes, regenerated from /repo's CURRENT source.

A shadow is the real code with *message text* removed: inside `raise ...` expressions and
`log.*(...)` statements, `"literal" % x` / `"literal".format(x)` are replaced by the literal
(formatting a symbolic value into text that no property depends on realises the value and
makes CrossHair's path tree infinite).  Nothing else is touched; the shadow is compiled in a
copy of the defining module's globals.  If the source shape does not allow a pass, the
caller gets an exception -> harness error (never a silent pass).
"""
import ast
import inspect
import textwrap


class _MsgStripper(ast.NodeTransformer):
  def __init__(self, log_names=('log',)):
    self.in_msg = 0
    self.log_names = log_names
    self.stripped = 0

  def _is_log_call(self, node):
    return (isinstance(node, ast.Call) and isinstance(node.func, ast.Attribute)
            and isinstance(node.func.value, ast.Name) and node.func.value.id in self.log_names)

  def visit_Raise(self, node):
    self.in_msg += 1
    try:
      self.generic_visit(node)
    finally:
      self.in_msg -= 1
    return node

  def visit_Expr(self, node):
    if self._is_log_call(node.value):
      self.stripped += 1
      return ast.copy_location(ast.Pass(), node)
    return self.generic_visit(node)

  def visit_BinOp(self, node):
    if self.in_msg and isinstance(node.op, ast.Mod) and _is_str_lit(node.left):
      self.stripped += 1
      return ast.copy_location(ast.Constant(_lit(node.left)), node)
    return self.generic_visit(node)

  def visit_Call(self, node):
    if (self.in_msg and isinstance(node.func, ast.Attribute) and node.func.attr == 'format'
        and _is_str_lit(node.func.value)):
      self.stripped += 1
      return ast.copy_location(ast.Constant(_lit(node.func.value)), node)
    return self.generic_visit(node)

  def visit_JoinedStr(self, node):
    if self.in_msg:
      self.stripped += 1
      return ast.copy_location(ast.Constant('<message>'), node)
    return self.generic_visit(node)


def _is_str_lit(n):
  if isinstance(n, ast.Constant) and isinstance(n.value, str):
    return True
  if isinstance(n, ast.Tuple):
    return False
  # implicit concatenation is already folded by the parser; ("a" "b") % x is one Constant
  return False


def _lit(n):
  return n.value


def _first_lines(obj):
  """co_firstlineno of the functions that make up obj (a function, or the methods of a class)."""
  out = []
  if inspect.isclass(obj):
    for v in vars(obj).values():
      f = getattr(v, '__func__', v)
      if isinstance(f, property):
        f = f.fget
      code = getattr(f, '__code__', None)
      if code is not None:
        out.append(code.co_firstlineno)
  else:
    f = getattr(obj, '__func__', obj)
    out.append(f.__code__.co_firstlineno)
  return out


def locate(obj):
  """AST node of the definition the LIVE object was created from (inspect.getsource picks the
  first textual definition, which is wrong for names defined twice under if/else)."""
  mod = inspect.getmodule(obj)
  with open(inspect.getsourcefile(mod)) as fh:
    src = fh.read()
  tree = ast.parse(src)
  lines = _first_lines(obj)
  kinds = (ast.ClassDef,) if inspect.isclass(obj) else (ast.FunctionDef,)
  cands = []
  for node in ast.walk(tree):
    if isinstance(node, kinds) and node.name == obj.__name__:
      lo = min([node.lineno] + [d.lineno for d in node.decorator_list])
      if lines and all(lo <= ln <= node.end_lineno for ln in lines):
        cands.append(node)
  if len(cands) != 1:
    raise LookupError('cannot locate the source of %r unambiguously (%d candidates)' % (obj, len(cands)))
  return cands[0], src


def source_of(obj):
  node, src = locate(obj)
  seg = ast.get_source_segment(src, node, padded=True)
  decos = ''.join(ast.get_source_segment(src, d, padded=True) and
                  ('@' + ast.get_source_segment(src, d) + '\n') for d in node.decorator_list)
  return textwrap.dedent(seg)


def shadow(obj, extra_passes=(), extra_globals=None, log_names=('log',)):
  """Return a message-stripped copy of a function or class defined in a carbon module."""
  node, _src = locate(obj)
  tree = ast.Module(body=[node], type_ignores=[])
  stripper = _MsgStripper(log_names)
  tree = stripper.visit(tree)
  for p in extra_passes:
    tree = p(tree)
  ast.fix_missing_locations(tree)
  mod = inspect.getmodule(obj)
  ns = dict(vars(mod))
  if extra_globals:
    ns.update(extra_globals)
  code = compile(tree, '<shadow of %s.%s>' % (mod.__name__, obj.__name__), 'exec')
  exec(code, ns)
  out = ns[obj.__name__]
  try:
    out.__vp_shadow_source__ = ast.unparse(tree)
    out.__vp_stripped__ = stripper.stripped
  except Exception:
    pass
  return out


def shadow_module(mod, extra_passes=(), name_suffix='__shadow'):
  """Message-stripped copy of a whole carbon module, executed in a fresh module object."""
  import types
  with open(inspect.getsourcefile(mod)) as fh:
    src = fh.read()
  tree = ast.parse(src)
  stripper = _MsgStripper()
  tree = stripper.visit(tree)
  for p in extra_passes:
    tree = p(tree)
  ast.fix_missing_locations(tree)
  new = types.ModuleType(mod.__name__ + name_suffix)
  new.__file__ = '<shadow of %s>' % mod.__name__
  new.__package__ = mod.__package__
  code = compile(tree, new.__file__, 'exec')
  exec(code, new.__dict__)
  new.__vp_stripped__ = stripper.stripped
  new.__vp_shadow_source__ = ast.unparse(tree)
  return new


def extract_statements(mod, predicate):
  """Top-level-or-nested statements of mod's source satisfying predicate(node, source_segment)."""
  with open(inspect.getsourcefile(mod)) as fh:
    src = fh.read()
  tree = ast.parse(src)
  out = []
  for node in ast.walk(tree):
    if isinstance(node, ast.stmt):
      seg = ast.get_source_segment(src, node) or ''
      if predicate(node, seg):
        out.append(node)
  return out
