"""Decide one property: generate variants, run engines in parallel, replay, write evidence."""
import concurrent.futures as cf
import glob
import hashlib
import json
import os
import shutil
import subprocess
import sys
import time

from vp_lib import gen
from vp_lib.replay import load_module

VERIF = os.path.dirname(os.path.dirname(os.path.abspath(__file__)))
PY = sys.executable
EXIT_OK, EXIT_VIOLATION, EXIT_HARNESS_ERROR = 0, 1, 3


def _load_manifest_level(pid):
  try:
    with open(os.path.join(VERIF, 'MANIFEST.json')) as fh:
      man = json.load(fh)
    for c in man.get('checks', []):
      if c['property_id'] == pid:
        return c['level_claimed']['category']
  except Exception:
    pass
  return 'other'


def _known(pid):
  path = os.path.join(VERIF, 'known_findings.json')
  if not os.path.exists(path):
    return []
  with open(path) as fh:
    data = json.load(fh)
  return [k for k in data.get('live', []) if k['property'] == pid]


def _run_json(cmd, wall):
  t0 = time.time()
  env = dict(os.environ)
  env['PYTHONPATH'] = VERIF + os.pathsep + env.get('PYTHONPATH', '')
  env['PYTHONHASHSEED'] = '0'
  env.setdefault('VP_TMP', os.path.join(VERIF, '.work', 'tmp-%d' % os.getpid()))
  try:
    p = subprocess.run(['timeout', '-k', '5', str(int(wall))] + cmd, cwd=VERIF, env=env,
                       stdout=subprocess.PIPE, stderr=subprocess.PIPE, text=True, errors='replace')
  except Exception as e:
    return dict(status='ERROR', messages=[dict(state='SPAWN', message=repr(e))], wall_s=time.time() - t0)
  out = p.stdout
  i = out.rfind('@@VPJSON@@')
  if i < 0:
    st = 'TIMEOUT' if p.returncode in (124, 137) else 'ERROR'
    return dict(status=st, messages=[dict(state=st, message='no verdict (rc=%s)' % p.returncode,
                                          traceback=(p.stderr or '')[-2000:])],
                wall_s=round(time.time() - t0, 3), iterations=0, confirmed_paths=0)
  try:
    return json.loads(out[i + len('@@VPJSON@@'):].strip().splitlines()[0])
  except Exception as e:
    return dict(status='ERROR', messages=[dict(state='PARSE', message=repr(e))], wall_s=time.time() - t0)


def _replay(pid, module_path, spec, fname, args, tag):
  """Replay a counterexample in a fresh interpreter without CrossHair."""
  d = os.path.join(os.environ.get('VP_REPLAYS', os.path.join(VERIF, 'replays')), pid)
  os.makedirs(d, exist_ok=True)
  info = dict(property=pid, engine='X', module=module_path, harness=spec.name,
              function=spec.replay or fname, args=args, found_by=tag)
  digest = hashlib.sha1(json.dumps(info, sort_keys=True).encode()).hexdigest()[:10]
  path = os.path.join(d, '%s-%s.json' % (spec.name, digest))
  with open(path, 'w') as fh:
    json.dump(info, fh, indent=1, sort_keys=True)
  ok, detail = _replay_file(path)
  return ok, detail, path


def _replay_file(path):
  env = dict(os.environ)
  env['PYTHONPATH'] = VERIF + os.pathsep + env.get('PYTHONPATH', '')
  p = subprocess.run(['timeout', '-k', '5', '300', PY, '-m', 'vp_lib.replay', path], cwd=VERIF, env=env,
                     stdout=subprocess.PIPE, stderr=subprocess.PIPE, text=True, errors='replace')
  lines = [ln for ln in p.stdout.splitlines() if ln.startswith(('REPRODUCED', 'NOT_REPRODUCED'))]
  if not lines:
    return None, 'replay crashed rc=%s: %s' % (p.returncode, (p.stderr or '')[-800:])
  return lines[-1].startswith('REPRODUCED'), lines[-1][:600]


def check(pid, tier, seed=0, jobs=None, only=None, keep_work=False):
  t_start = time.time()
  jobs = jobs or int(os.environ.get('VERIF_JOBS', os.cpu_count() or 4))
  level = _load_manifest_level(pid)
  mods = sorted(glob.glob(os.path.join(VERIF, 'harness', pid + '*.py')))
  if not mods:
    print('no harness module for', pid)
    return EXIT_HARNESS_ERROR
  work = os.path.join(VERIF, '.work', pid, '%s-%d' % (tier, os.getpid()))
  shutil.rmtree(work, ignore_errors=True)
  os.makedirs(work)
  os.environ['VP_TMP'] = os.path.join(VERIF, '.work', 'tmp-%d' % os.getpid())
  known = _known(pid)

  tasks = []       # dict(kind, spec, module, variant, cmd, wall, role)
  bounds = {}
  specs = []
  for mpath in mods:
    mod = load_module(mpath, 'vp_spec_' + os.path.basename(mpath)[:-3])
    variants = []
    for spec in mod.HARNESSES:
      if only and spec.name not in only:
        continue
      specs.append(spec)
      if spec.kind == 'S':
        tasks.append(dict(kind='S', spec=spec, module=mpath, name=spec.name, role='lemmas',
                          cmd=[PY, '-m', 'vp_lib.s_driver', mpath, spec.name, tier], wall=1800))
        continue
      cfg = spec.tiers.get(tier) or spec.tiers['quick']
      if cfg is None:
        continue
      timeout = float(cfg.get('timeout', 60))
      shards = cfg.get('shards') or [('all', None)]
      base_pre = list(cfg.get('extra_pre') or [])
      regions = [k for k in known if k['harness'] == spec.name]
      for label, spre in shards:
        spre_l = [spre] if spre else []
        vbase = '%s__%s' % (spec.name, gen.safe(label))
        excl = ['not (%s)' % k['region'] for k in regions]
        variants.append(dict(func=spec.name, name=vbase, extra_pre=base_pre + spre_l + excl, twin=None))
        tasks.append(dict(kind='X', spec=spec, module=mpath, name=vbase, role='main', timeout=timeout,
                          per_path=cfg.get('per_path_timeout')))
      for k in regions:   # one run per finding (not per shard): its region must still yield the counterexample
        kn = '%s__known_%s' % (spec.name, gen.safe(k['id']))
        variants.append(dict(func=spec.name, name=kn, extra_pre=base_pre + [k['region']] + list(k.get('hint_pre', [])), twin=None))
        tasks.append(dict(kind='X', spec=spec, module=mpath, name=kn, role='known', known=k,
                          timeout=min(timeout, float(k.get('timeout', timeout))), per_path=cfg.get('per_path_timeout')))
      # reachability twins: once per harness (first shard), tier preconditions included
      label0, spre0 = shards[0]
      twin_pre = base_pre + ([spre0] if spre0 else [])
      if spec.twin_pre is not None:
        twin_pre = base_pre + list(spec.twin_pre)
      for tag in (['end'] if spec.end else []) + spec.covers:
        tn = '%s__reach_%s' % (spec.name, gen.safe(tag))
        variants.append(dict(func=spec.name, name=tn, extra_pre=twin_pre, twin=tag))
        tasks.append(dict(kind='X', spec=spec, module=mpath, name=tn, role='twin', tag=tag,
                          timeout=max(timeout, 60), per_path=cfg.get('per_path_timeout')))
    if variants:
      gpath = os.path.join(work, 'gen_' + os.path.basename(mpath))
      bounds.update(gen.generate(mpath, variants, gpath))
      for t in tasks:
        if t['kind'] == 'X' and t['module'] == mpath and 'cmd' not in t:
          t['cmd'] = [PY, '-m', 'vp_lib.xh_driver', gpath, t['name'], str(t['timeout'])]
          if t.get('per_path'):
            t['cmd'].append(str(t['per_path']))
          t['wall'] = t['timeout'] * 2.5 + 90

  # thorough tier: keep the whole property within a wall-clock budget by scaling the per-harness
  # timeouts down when the requested total exceeds it (shards that then do not finish are INCONCLUSIVE)
  if tier == 'thorough':
    budget = float(os.environ.get('VERIF_THOROUGH_BUDGET_S', '1800')) * jobs
    mains = [t for t in tasks if t['kind'] == 'X' and t['role'] in ('main', 'known')]
    requested = sum(t['timeout'] for t in mains)
    if requested > budget:
      scale = budget / requested
      for t in mains:
        t['timeout'] = max(90.0, t['timeout'] * scale)
        t['cmd'][5] = str(t['timeout'])
        t['wall'] = t['timeout'] * 2.5 + 90
  # longest first
  tasks.sort(key=lambda t: -t.get('wall', 0))
  results = {}
  with cf.ThreadPoolExecutor(max_workers=jobs) as ex:
    futs = {ex.submit(_run_json, t['cmd'], t['wall']): t for t in tasks}
    for f in cf.as_completed(futs):
      results[futs[f]['name']] = f.result()

  # ---- evaluate ---------------------------------------------------------
  ev = dict(obligations=0, discharged=0, inconclusive=0, evaluations=0, distinct=0,
            solver_time=0.0, solver_checks=0, samples=[], violations=[], known_lines=[],
            harness_errors=[], inconclusive_names=[], per_harness=[])
  for t in tasks:
    r = results[t['name']]
    spec = t['spec']
    row = dict(harness=t['name'], role=t['role'], engine=t['kind'], status=r.get('status'),
               wall_s=r.get('wall_s'))
    if t['kind'] == 'S':
      if r.get('status') != 'OK':
        ev['harness_errors'].append('%s: %s' % (t['name'], _first_msg(r)))
        row['error'] = _first_msg(r)
      lem_rows = []
      for lem in r.get('lemmas', []):
        ev['obligations'] += 1
        ev['evaluations'] += int(lem.get('queries', 1))
        ev['solver_time'] += float(lem.get('solver_time_s', 0.0))
        ev['solver_checks'] += int(lem.get('queries', 1))
        lem_rows.append(dict(name=lem['name'], verdict=lem['verdict'], t=lem.get('solver_time_s')))
        if lem['verdict'] == 'proved':
          ev['discharged'] += 1
          ev['distinct'] += 1
          if lem.get('witness') is not None and len(ev['samples']) < 12:
            ev['samples'].append({'lemma': lem['name'], 'nonvacuity_witness': lem['witness']})
        elif lem['verdict'] == 'refuted':
          ok = None
          detail = 'no replay function'
          d = os.path.join(os.environ.get('VP_REPLAYS', os.path.join(VERIF, 'replays')), pid)
          os.makedirs(d, exist_ok=True)
          info = dict(property=pid, engine='S', module=t['module'], harness=spec.name,
                      model=dict(lemma=lem['name'], model=lem.get('model')))
          digest = hashlib.sha1(json.dumps(info, sort_keys=True, default=repr).encode()).hexdigest()[:10]
          path = os.path.join(d, '%s-%s.json' % (gen.safe(lem['name']), digest))
          with open(path, 'w') as fh:
            json.dump(info, fh, indent=1, sort_keys=True, default=repr)
          if spec.replay is not None:
            ok, detail = _replay_file(path)
          kn = [k for k in known if k['harness'] == spec.name and k.get('lemma') == lem['name']]
          if ok and kn:
            ev['known_lines'].append('KNOWN-FINDING: property=%s %s' % (pid, kn[0]['what']))
          elif ok:
            ev['violations'].append((path, '%s: %s' % (lem['name'], lem.get('detail', ''))))
          else:
            ev['harness_errors'].append('%s: model does not replay (%s)' % (lem['name'], detail))
        elif lem['verdict'] == 'unknown':
          ev['inconclusive'] += 1
          ev['inconclusive_names'].append(lem['name'])
        else:
          ev['harness_errors'].append('%s: %s' % (lem['name'], lem.get('detail')))
      row['lemmas'] = lem_rows
      ev['per_harness'].append(row)
      continue

    row.update(iterations=r.get('iterations', 0), confirmed_paths=r.get('confirmed_paths', 0),
               unknown_paths=r.get('unknown_paths', 0), ignored_paths=r.get('ignored_paths', 0),
               solver_checks=r.get('solver_checks', 0), solver_time_s=r.get('solver_time_s', 0.0),
               bounds=bounds.get(t['name'], []))
    ev['evaluations'] += int(r.get('iterations', 0))
    ev['solver_time'] += float(r.get('solver_time_s', 0.0))
    ev['solver_checks'] += int(r.get('solver_checks', 0))
    st = r.get('status')
    if t['role'] == 'twin':
      msgs = ' '.join(m.get('message', '') for m in r.get('messages', []))
      if st == 'REFUTED' and 'Reached' in msgs:
        row['reachable'] = True
        if r.get('counterexamples') and len(ev['samples']) < 40:
          ev['samples'].append({'harness': spec.name, 'reaches': t['tag'], 'args': r['counterexamples'][0]})
      else:
        row['reachable'] = False
        ev['harness_errors'].append('vacuity: twin %s did not reach its mark (%s: %s)'
                                    % (t['name'], st, _first_msg(r)))
      ev['per_harness'].append(row)
      continue

    if t['role'] == 'known':
      k = t['known']
      if st == 'REFUTED' and r.get('counterexamples'):
        ok, detail, path = _replay(pid, t['module'], spec, spec.name, r['counterexamples'][0], t['name'])
        if ok:
          ev['known_lines'].append('KNOWN-FINDING: property=%s %s' % (pid, k['what']))
          row['known_reproduced'] = True
          try:
            os.remove(path)
          except OSError:
            pass
        else:
          ev['harness_errors'].append('%s: counterexample does not replay (%s)' % (t['name'], detail))
      else:
        row['known_reproduced'] = False
        print('NOTE: known finding %s did not show up in its region (%s); it may be gone' % (k['id'], st))
      ev['per_harness'].append(row)
      continue

    # main obligation
    ev['obligations'] += 1
    ev['distinct'] += int(r.get('confirmed_paths', 0))
    if st == 'CONFIRMED':
      ev['discharged'] += 1
    elif st == 'REFUTED':
      cexs = r.get('counterexamples') or []
      if not cexs or '__unrepresentable__' in cexs[0]:
        ev['harness_errors'].append('%s: refuted without usable counterexample: %s' % (t['name'], _first_msg(r)))
      else:
        ok, detail, path = _replay(pid, t['module'], spec, spec.name, cexs[0], t['name'])
        row['counterexample'] = cexs[0]
        row['replay'] = detail
        if ok:
          ev['violations'].append((path, '%s %s :: %s' % (t['name'], cexs[0], _first_msg(r))))
        else:
          ev['harness_errors'].append('%s: counterexample %s does not replay on the real code (%s)'
                                      % (t['name'], cexs[0], detail))
    elif st in ('UNKNOWN', 'TIMEOUT'):
      ev['inconclusive'] += 1
      ev['inconclusive_names'].append(t['name'])
    elif st == 'PRE_UNSAT' and [k for k in known if k['harness'] == spec.name]:
      row['note'] = 'shard lies entirely inside a known-finding region'
      ev['obligations'] -= 1
    elif st == 'PRE_UNSAT':
      ev['harness_errors'].append('%s: unable to meet precondition: %s' % (t['name'], _first_msg(r)))
    else:
      ev['harness_errors'].append('%s: %s' % (t['name'], _first_msg(r)))
    ev['per_harness'].append(row)

  wall = round(time.time() - t_start, 2)
  # ---- evidence ------------------------------------------------------------
  encodes, assumptions = [], []
  for s in specs:
    for e in s.encodes:
      if e not in encodes:
        encodes.append(e)
    for a in s.assumptions:
      if a not in assumptions:
        assumptions.append(a)
  samples = ev['samples'] or [{'note': 'no twin witness recorded'}]
  coverage = dict(
    explanation=('Solver-based checking of carbon\'s real code: CrossHair executes the harness (which drives '
                 'the classes imported from /repo/lib, or shadow copies regenerated from their current source) '
                 'with symbolic arguments, z3 decides every branch; engine-S lemmas translate the current '
                 'source of numeric kernels to SMT. A harness counts as discharged only when the path tree '
                 'was exhausted ("Confirmed over all paths") within the bounds listed under bounds.'),
    obligations=ev['obligations'], discharged=ev['discharged'], inconclusive=ev['inconclusive'],
    inconclusive_names=ev['inconclusive_names'],
    evaluations=max(ev['evaluations'], 0), distinct_nontrivial=ev['distinct'],
    rule=('evaluations = CrossHair iterations (paths attempted) + SMT queries issued by engine S; '
          'distinct_nontrivial = completed paths on which every precondition held and the postcondition was '
          'checked (each path is a distinct sequence of branch decisions) + discharged lemmas'),
    samples=samples,
    functions_encoded=encodes,
    bounds={k: v for k, v in bounds.items() if '__reach_' not in k},
    solver_time_s=round(ev['solver_time'], 2), solver_queries=ev['solver_checks'],
    checker_cmd='./verify %s --tier %s' % (pid, tier),
    trusted_base=['CrossHair 0.0.110 symbolic models of the Python builtins', 'z3 5.1.0',
                  'harness stubs listed under assumptions', 'CPython 3.12 for concrete replay'],
    exhaustive=False,
    per_harness=ev['per_harness'],
    known_findings_reported=ev['known_lines'],
    harness_errors=ev['harness_errors'],
  )
  evidence = dict(property_id=pid, tier=tier, seed=int(seed), level=level, coverage=coverage,
                  assumptions=assumptions, wall_s=wall, violations=len(ev['violations']))
  evdir = os.environ.get('VP_EVIDENCE', os.path.join(VERIF, 'evidence'))
  os.makedirs(evdir, exist_ok=True)
  with open(os.path.join(evdir, pid + '.json'), 'w') as fh:
    json.dump(evidence, fh, indent=1, sort_keys=True, default=repr)

  # ---- report --------------------------------------------------------------
  print('%s tier=%s: obligations=%d discharged=%d inconclusive=%d paths=%d solver=%.1fs wall=%.1fs'
        % (pid, tier, ev['obligations'], ev['discharged'], ev['inconclusive'], ev['evaluations'],
           ev['solver_time'], wall))
  for row in ev['per_harness']:
    if row['engine'] == 'X':
      print('  [%s] %-40s %-9s iters=%-5s confirmed=%-5s %.0fs' % (
        row['role'], row['harness'], row['status'], row.get('iterations'), row.get('confirmed_paths'),
        row.get('wall_s') or 0))
    else:
      print('  [S] %-40s %s' % (row['harness'], ' '.join('%s=%s' % (l['name'], l['verdict']) for l in row.get('lemmas', []))))
  for n in ev['inconclusive_names']:
    print('INCONCLUSIVE harness=%s (bounded bug-hunting only for this obligation)' % n)
  for line in ev['known_lines']:
    print(line)
  shutil.rmtree(os.path.join(VERIF, '.work', 'tmp-%d' % os.getpid()), ignore_errors=True)
  if not keep_work:
    shutil.rmtree(work, ignore_errors=True)
  if ev['violations']:
    for path, what in ev['violations']:
      print('DETAIL %s' % what)
      print('VIOLATION property=%s replay=%s' % (pid, path))
    return EXIT_VIOLATION
  if ev['harness_errors']:
    for e in ev['harness_errors']:
      print('HARNESS-ERROR %s' % e)
    return EXIT_HARNESS_ERROR
  return EXIT_OK


def _first_msg(r):
  for m in r.get('messages', []):
    s = m.get('message', '')
    tb = m.get('traceback', '')
    return (s + (' | ' + tb[-400:] if tb and m.get('state') in ('DRIVER_ERROR', 'ERROR', 'TIMEOUT') else ''))[:900]
  return ''
