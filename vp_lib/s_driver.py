"""Run one engine-S obligation group (AST->SMT lemmas) in its own process; print JSON."""
import json
import os
import sys
import time
import traceback

from vp_lib.replay import load_module


def main(argv):
  path, name, tier = argv[0], argv[1], argv[2]
  out = dict(harness=name, status='ERROR', lemmas=[], wall_s=0.0, messages=[])
  t0 = time.time()
  try:
    mod = load_module(path, 'vp_s_harness')
    spec = [h for h in mod.HARNESSES if h.name == name][0]
    lemmas = spec.func(tier)
    out['lemmas'] = lemmas
    out['status'] = 'OK'
  except BaseException as e:
    out['messages'].append(dict(state='DRIVER_ERROR', message=repr(e),
                                traceback=traceback.format_exc()[-3000:]))
  out['wall_s'] = round(time.time() - t0, 3)
  sys.stdout.write('\n@@VPJSON@@' + json.dumps(out, default=repr) + '\n')
  sys.stdout.flush()
  try:
    import atexit
    atexit._run_exitfuncs()      # harness temp dirs are removed by atexit handlers
  except BaseException:
    pass
  os._exit(0)


if __name__ == '__main__':
  main(sys.argv[1:])
