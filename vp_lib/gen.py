"""Generate harness variants (tier bounds, shards, known-finding regions, reachability twins).

Input: a harness module (PEP316 functions + HARNESSES list).  Output: one generated module
containing, for every requested variant, a renamed copy of the harness function whose
docstring carries the original contract plus the variant's extra `pre:` lines.  The body is
the harness body itself (not a call to it), so CrossHair never short-circuits through a
contract, and the twin is literally "the same code, failing at the marked point".
"""
import ast
import copy
import re


def split_contract(doc):
  pres, posts, raises, other = [], [], [], []
  for line in (doc or '').splitlines():
    s = line.strip()
    if s.startswith('pre:'):
      pres.append(s[4:].strip())
    elif s.startswith('post:'):
      posts.append(s[5:].strip())
    elif s.startswith('raises:'):
      raises.append(s[7:].strip())
    elif s:
      other.append(s)
  return pres, posts, raises, other


class _RetRewriter(ast.NodeTransformer):
  """return X  ->  return _vp_api._ret(X)   (own level only, not nested defs/lambdas)"""

  def visit_FunctionDef(self, node):
    return node

  visit_AsyncFunctionDef = visit_FunctionDef
  visit_Lambda = visit_FunctionDef
  visit_ClassDef = visit_FunctionDef

  def visit_Return(self, node):
    val = node.value if node.value is not None else ast.Constant(None)
    call = ast.Call(func=ast.Attribute(value=ast.Name('_vp_api', ast.Load()), attr='_ret',
                                       ctx=ast.Load()), args=[val], keywords=[])
    return ast.copy_location(ast.Return(value=call), node)


def make_variant(fdef, new_name, extra_pre, twin_tag):
  f = copy.deepcopy(fdef)
  f.name = new_name
  doc = ast.get_docstring(f, clean=False)
  pres, posts, raises, _ = split_contract(doc)
  body = f.body[1:] if (f.body and isinstance(f.body[0], ast.Expr)
                        and isinstance(getattr(f.body[0], 'value', None), ast.Constant)
                        and isinstance(f.body[0].value.value, str)) else f.body
  if twin_tag is not None:
    body = [_RetRewriter().visit(s) for s in body]
  lines = ['']
  for p in pres + list(extra_pre):
    lines.append('    pre: ' + p)
  for p in posts:
    lines.append('    post: ' + p)
  for r in raises:
    lines.append('    raises: ' + r)
  lines.append('    ')
  newdoc = ast.Expr(value=ast.Constant('\n'.join(lines)))
  set_target = ast.parse('_vp_api._TARGET = %r' % (twin_tag,)).body[0]
  f.body = [newdoc, set_target] + body
  return f, pres + list(extra_pre)


def generate(src_path, variants, out_path):
  """variants: list of dict(func=, name=, extra_pre=[...], twin=None|tag).
  Returns {variant name: [pre lines]}."""
  with open(src_path) as fh:
    src = fh.read()
  tree = ast.parse(src, src_path)
  fdefs = {n.name: n for n in tree.body if isinstance(n, ast.FunctionDef)}
  new_nodes = []
  bounds = {}
  for v in variants:
    if v['func'] not in fdefs:
      raise KeyError('harness function %s not found in %s' % (v['func'], src_path))
    node, pres = make_variant(fdefs[v['func']], v['name'], v.get('extra_pre') or [], v.get('twin'))
    new_nodes.append(node)
    bounds[v['name']] = pres
  imp = ast.parse('import vp_lib.api as _vp_api').body
  # keep `from __future__` first
  idx = 0
  for i, n in enumerate(tree.body):
    if isinstance(n, ast.ImportFrom) and n.module == '__future__':
      idx = i + 1
    elif i == 0 and isinstance(n, ast.Expr) and isinstance(getattr(n, 'value', None), ast.Constant):
      idx = 1
  tree.body = tree.body[:idx] + imp + tree.body[idx:] + new_nodes
  ast.fix_missing_locations(tree)
  code = ast.unparse(tree)
  # PEP316 docstrings are read raw by CrossHair; ast.unparse escapes backslashes in
  # docstrings consistently with how the source had them, nothing to do here.
  with open(out_path, 'w') as fh:
    fh.write('# GENERATED from %s -- do not edit\n' % src_path)
    fh.write(code)
    fh.write('\n')
  return bounds


_ident = re.compile(r'[^A-Za-z0-9_]+')


def safe(s):
  return _ident.sub('_', s)
