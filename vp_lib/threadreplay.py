"""Replay of a statement-level schedule on REAL OS threads running carbon's REAL code.

The symbolic run (coroutines) yields a global trace [(thread name, line number), ...]: entry (T, L)
means "T has completed everything before L and stands before statement L"; L itself is executed by
T's next step, i.e. immediately before T's next entry (or its closing (T, END) entry) is appended.
Here the same functions of the unmodified module run on real threads with the real threading.Lock;
a sys.settrace line tracer enforces exactly that: on arriving before L a thread (1) waits until all
earlier entries are registered and registers its own, (2) stays parked until every entry before its
NEXT one is registered, and only then executes L.  At most one thread executes a statement at any
time; the lock is always free when a `with lock:` statement is finally executed, as in the model.
"""
import sys
import threading


class ReplayMismatch(Exception):
  pass


class Controller(object):
  def __init__(self, trace, filename_suffix, func_names, timeout=10.0, probe=None):
    self.probe = probe
    self.trace = list(trace)
    self.suffix = filename_suffix
    self.funcs = set(func_names)
    self.cv = threading.Condition()
    self.gi = 0
    self.timeout = timeout
    self.per_thread = {}
    for pos, (name, lineno) in enumerate(self.trace):
      self.per_thread.setdefault(name, []).append((pos, lineno))
    self.next_idx = dict((n, 0) for n in self.per_thread)
    self.errors = []
    self.ended = set()

  def tracer_for(self, name):
    ctl = self

    def local(frame, event, arg):
      if event == 'line':
        ctl.on_line(name, frame.f_lineno)
      return local

    def glob(frame, event, arg):
      code = frame.f_code
      if event == 'call' and code.co_name in ctl.funcs and code.co_filename.endswith(tuple(ctl.suffix) if not isinstance(ctl.suffix, str) else ctl.suffix):
        return local
      return None
    return glob

  def on_line(self, name, lineno):
    seq = self.per_thread.get(name, [])
    j = self.next_idx.get(name, 0)
    if j >= len(seq):
      return                                   # beyond the recorded schedule: run freely
    pos, want = seq[j]
    if lineno != want:
      return                                   # continuation line of the current statement
    with self.cv:
      ok = self.cv.wait_for(lambda: self.gi >= pos or self.errors, timeout=self.timeout)
      if not ok:
        self.errors.append('thread %s timed out waiting for its turn at line %d (trace position %d, at %d)' % (name, lineno, pos, self.gi))
        self.cv.notify_all()
        return
      if self.gi == pos:
        self.gi = pos + 1
        self._skip_ended()
      self.next_idx[name] = j + 1
      if self.probe is not None:
        try:
          self.probe(name)           # observation point: between two statements, all threads parked
        except Exception as e:
          self.errors.append('probe failed: %r' % (e,))
      self.cv.notify_all()
      # (2) statement L runs only when it is time for this thread's next entry
      if j + 1 < len(seq):
        nxt = seq[j + 1][0]
        self._skip_ended()
        ok = self.cv.wait_for(lambda: self.gi >= nxt or self.errors, timeout=self.timeout)
        if not ok:
          self.errors.append('thread %s timed out before executing line %d (waiting for trace position %d, at %d)' % (name, lineno, nxt, self.gi))
          self.cv.notify_all()

  def _skip_ended(self):
    """Pass END entries (and entries of finished threads) at the head of the trace.  Called with cv held."""
    changed = False
    while self.gi < len(self.trace) and (self.trace[self.gi][0] in self.ended):
      self.gi += 1
      changed = True
    if changed:
      self.cv.notify_all()

  def thread_done(self, name):
    """A finished thread gives up its remaining turns."""
    with self.cv:
      while self.gi < len(self.trace) and self.trace[self.gi][0] == name:
        self.gi += 1
      self._skip_done()
      self.cv.notify_all()

  def _skip_done(self):
    pass


def run_threads(trace, bodies, filename_suffix, func_names, timeout=10.0, probe=None):
  """bodies: dict name -> zero-arg callable (runs the real code).  Returns dict name -> ('ok', value) |
  ('error', exception), plus the list of replay problems (empty when the schedule was followed)."""
  ctl = Controller(trace, filename_suffix, func_names, timeout, probe)
  results = {}
  done = set()

  def runner(name, fn):
    sys.settrace(ctl.tracer_for(name))
    try:
      results[name] = ('ok', fn())
    except Exception as e:
      results[name] = ('error', e)
    finally:
      sys.settrace(None)
      done.add(name)
      # let the others pass this thread's END entry and the positions it will never reach
      with ctl.cv:
        ctl.ended.add(name)
        ctl._skip_ended()
        ctl.cv.notify_all()
  ths = [threading.Thread(target=runner, args=(n, f), name=n, daemon=True) for n, f in bodies.items()]
  for t in ths:
    t.start()
  for t in ths:
    t.join(timeout * 3)
  problems = list(ctl.errors)
  for t in ths:
    if t.is_alive():
      problems.append('thread %s did not finish' % t.name)
  for name, seq in ctl.per_thread.items():
    real = [x for x in seq if x[1] != -1]
    if ctl.next_idx.get(name, 0) < len(real) and name in results and results[name][0] == 'ok':
      problems.append('thread %s finished after %d of %d recorded statements' % (name, ctl.next_idx[name], len(real)))
  return results, problems
